"""Driver: ./check <Cxx> --tier quick|thorough [--seed N] [--replay F] [--shard i/n --out F]."""
from __future__ import annotations

import argparse
import hashlib
import importlib
import json
import os
import shutil
import subprocess
import sys
import tempfile
import time
from typing import List

from . import bootstrap
from .core import Ctx, jsonable

ROOT = bootstrap.VERIF_ROOT
KNOWN = os.path.join(ROOT, "known_findings.json")
SHARD_TIMEOUT = {"quick": 900, "thorough": 3600}


def load_known(prop: str):
    try:
        data = json.load(open(KNOWN))
    except Exception:
        return {}
    return {k["mechanism"]: k for k in data.get("known", []) if k.get("property") == prop}


def run_shard(prop: str, tier: str, seed: int, shard: int, nshards: int, replay_case=None) -> Ctx:
    bootstrap.setup()
    have_icontract = bootstrap.ensure_deps()
    mod = importlib.import_module(f"vf.checks.{prop.lower()}")
    ctx = Ctx(prop, tier, seed, shard, nshards, replay_case)
    ctx.notes["icontract"] = bool(have_icontract)
    budget = getattr(mod, "BUDGET_S", {"quick": 600, "thorough": 3000})
    ctx.deadline = time.time() + budget[tier]
    try:
        mod.run(ctx)
    except Exception as e:  # the workload itself crashed: keep what the monitors recorded, never call it "held"
        import traceback

        ctx.inconclusive.append(f"workload_crash:{type(e).__name__}:{str(e)[:200]}:{traceback.format_exc(limit=4)[-500:]}")
    return ctx


def finish(ctx: Ctx, mod, wall: float, write_evidence: bool = True) -> int:
    prop = ctx.prop
    known = load_known(prop)
    # ---- deciding taps must have observed something
    for key in getattr(mod, "DECIDING", []):
        if ctx.replay_case is None and ctx.counters.get(key, 0) <= 0:
            ctx.inconclusive.append(f"deciding_monitor_never_checked:{key}")
    extra = getattr(mod, "inconclusive_reasons", None)
    if extra is not None and ctx.replay_case is None:
        ctx.inconclusive.extend(extra(ctx) or [])
    for wl in ("scenario", "direct_frames"):
        n_exc, n_cases = ctx.counters.get(f"{wl}.exceptions", 0), ctx.counters.get(f"{wl}.cases", 0)
        if ctx.replay_case is None and n_cases and n_exc > 0.2 * n_cases:
            ctx.inconclusive.append(f"{wl}_workload_mostly_crashing:{n_exc}/{n_cases}")
    n_case_exc = sum(v for k, v in ctx.counters.items() if k.endswith(".case_exceptions"))
    if ctx.replay_case is None and n_case_exc > 0.05 * max(1, ctx.evaluations):
        ctx.inconclusive.append(f"workload_cases_crashing:{n_case_exc}/{ctx.evaluations}:{ctx.notes.get('case_exception_samples')}")
    distinct = len(ctx.sigs)
    if ctx.replay_case is None and distinct < 2:
        ctx.inconclusive.append(f"too_few_distinct_nontrivial_cases:{distinct}")

    unknown = [v for v in ctx.violations if v["mechanism"] not in known]
    seen_known = sorted({v["mechanism"] for v in ctx.violations if v["mechanism"] in known})
    n_viol = sum(c for k, c in ctx.counters.items() if k.startswith("violations.") and k[len("violations."):] not in known)

    if write_evidence and ctx.replay_case is None:
        ev = {
            "property_id": prop,
            "tier": ctx.tier,
            "seed": ctx.seed,
            "level": "exploration",
            "coverage": {
                "evaluations": int(ctx.evaluations),
                "distinct_nontrivial": int(distinct),
                "rule": getattr(mod, "RULE", ""),
                "samples": ctx.samples[:4] or [{"note": "no sample recorded"}],
                "exhaustive": bool(ctx.exhaustive) and all(ctx.exhaustive.values()) and not ctx.inconclusive,
                "exhaustive_subspaces": ctx.exhaustive,
                "monitor_events": {k: v for k, v in sorted(ctx.counters.items())},
                "state_classes": dict(sorted(ctx.sigs.items(), key=lambda kv: -kv[1])[:60]),
                "trivial_cases": int(ctx.trivial),
                "notes": jsonable(ctx.notes),
                "known_findings_seen": seen_known,
                "inconclusive": ctx.inconclusive[:10],
                "repo_head": bootstrap.git_head(),
                "repo_tree": bootstrap.REPO,
            },
            "assumptions": getattr(mod, "ASSUMPTIONS", []),
            "wall_s": round(wall, 2),
            "violations": int(n_viol),
        }
        os.makedirs(os.path.join(ROOT, "evidence"), exist_ok=True)
        with open(os.path.join(ROOT, "evidence", f"{prop}.json"), "w") as f:
            json.dump(ev, f, indent=1, sort_keys=True)

    for m in seen_known:
        print(f"KNOWN-FINDING: property={prop} {m}: {known[m].get('description', '')}")

    if unknown:
        os.makedirs(os.path.join(ROOT, "replays", prop), exist_ok=True)
        seen = set()
        for v in unknown:
            if v["mechanism"] in seen:
                continue
            seen.add(v["mechanism"])
            h = hashlib.sha256(json.dumps(v, sort_keys=True).encode()).hexdigest()[:12]
            path = os.path.join(ROOT, "replays", prop, f"{h}.json")
            v = dict(v, property=prop, repo_head=bootstrap.git_head(), tier=ctx.tier)
            with open(path, "w") as f:
                json.dump(v, f, indent=1, sort_keys=True)
            print(f"VIOLATION property={prop} replay={path}")
            print(f"  mechanism={v['mechanism']} detail={json.dumps(v['detail'])[:600]}")
        return 1
    if ctx.inconclusive:
        print(f"INCONCLUSIVE property={prop} reason={'; '.join(ctx.inconclusive[:5])[:1500]}")
        return 3
    if ctx.replay_case is None:
        print(
            f"HELD property={prop} tier={ctx.tier} seed={ctx.seed} evaluations={ctx.evaluations} "
            f"distinct_nontrivial={distinct} wall_s={wall:.1f}"
        )
    else:
        print(f"REPLAY-CLEAN property={prop}")
    return 0


def main(argv: List[str]) -> int:
    ap = argparse.ArgumentParser()
    ap.add_argument("prop")
    ap.add_argument("--tier", default=os.environ.get("VERIF_TIER", "quick"), choices=["quick", "thorough"])
    ap.add_argument("--seed", type=int, default=int(os.environ.get("VERIF_SEED", "0")))
    ap.add_argument("--replay")
    ap.add_argument("--shard")
    ap.add_argument("--out")
    ap.add_argument("--jobs", type=int, default=int(os.environ.get("VERIF_JOBS", "0")))
    ap.add_argument("--no-evidence", action="store_true")
    a = ap.parse_args(argv)
    prop = a.prop.upper()

    if os.environ.get("PYTHONHASHSEED") != "0":
        os.environ["PYTHONHASHSEED"] = "0"
        os.execv(sys.executable, [sys.executable, "-m", "vf.driver"] + argv)

    t0 = time.time()
    if a.shard:  # worker
        i, n = (int(x) for x in a.shard.split("/"))
        ctx = run_shard(prop, a.tier, a.seed, i, n)
        with open(a.out, "w") as f:
            json.dump(ctx.dump(), f)
        return 0

    if a.replay:
        v = json.load(open(a.replay))
        case = v.get("replay") or v.get("case")
        if not isinstance(case, dict) or "workload" not in case:
            print("INCONCLUSIVE reason=replay_file_has_no_case")
            return 3
        ctx = run_shard(prop, v.get("tier", a.tier), int(case.get("seed", a.seed)), 0, 1, replay_case=case)
        mod = importlib.import_module(f"vf.checks.{prop.lower()}")
        return finish(ctx, mod, time.time() - t0, write_evidence=False)

    mod_jobs = None
    bootstrap.setup()
    mod = importlib.import_module(f"vf.checks.{prop.lower()}")
    jobs = a.jobs or getattr(mod, "JOBS", {"quick": 1, "thorough": 14})[a.tier]
    if jobs <= 1:
        ctx = run_shard(prop, a.tier, a.seed, 0, 1)
        return finish(ctx, mod, time.time() - t0, write_evidence=not a.no_evidence)

    # ---- sharded run: subprocess per shard (never multiprocessing.Pool) ----
    scratch = tempfile.mkdtemp(prefix=f"verif-{prop}-", dir="/dev/shm" if os.path.isdir("/dev/shm") else None)
    procs = []
    try:
        for i in range(jobs):
            out = os.path.join(scratch, f"shard{i}.json")
            cmd = [sys.executable, "-m", "vf.driver", prop, "--tier", a.tier, "--seed", str(a.seed), "--shard", f"{i}/{jobs}", "--out", out]
            log = open(os.path.join(scratch, f"shard{i}.log"), "w")
            procs.append((i, out, subprocess.Popen(cmd, cwd=ROOT, stdout=log, stderr=subprocess.STDOUT), log))
        ctx = Ctx(prop, a.tier, a.seed)
        deadline = time.time() + SHARD_TIMEOUT[a.tier]
        for i, out, p, log in procs:
            try:
                p.wait(timeout=max(1.0, deadline - time.time()))
            except subprocess.TimeoutExpired:
                p.kill()
                ctx.inconclusive.append(f"shard_watchdog:{i}")
                continue
            finally:
                log.close()
            if p.returncode != 0 or not os.path.exists(out):
                tail = open(os.path.join(scratch, f"shard{i}.log")).read()[-600:]
                ctx.inconclusive.append(f"shard_failed:{i}:rc={p.returncode}:{tail}")
                continue
            ctx.absorb(json.load(open(out)))
        return finish(ctx, mod, time.time() - t0, write_evidence=not a.no_evidence)
    finally:
        shutil.rmtree(scratch, ignore_errors=True)


if __name__ == "__main__":
    try:
        rc = main(sys.argv[1:])
    except SystemExit:
        raise
    except BaseException as e:  # a crash of the harness is never a verdict
        import traceback

        traceback.print_exc()
        print(f"INCONCLUSIVE reason=harness_crash:{type(e).__name__}:{str(e)[:300]}")
        rc = 3
    sys.exit(rc)
