"""Synthetic T4 / nuScenes-format dataset directories written from an abstract scene description.

The description (``SceneSpec``) is also the oracle for the loader (C16): every table written here is
kept, so loaded frames can be compared with what was annotated.
"""
from __future__ import annotations

from dataclasses import dataclass, field
import json
import os
import random
import shutil
import tempfile
from typing import Any, Dict, List, Optional, Sequence, Tuple

import numpy as np

from ..oracles import geometry as G

SCRATCH_BASE = "/dev/shm" if os.path.isdir("/dev/shm") else None

VIS_TABLES = {
    # token -> level, the two spellings found in T4 / nuScenes data
    "plain": {"full": "full", "most": "most", "partial": "partial", "none": "none"},
    "alias": {"4": "v80-100", "3": "v60-80", "2": "v40-60", "1": "v0-40"},
}
VIS_EXPECT = {"full": "full", "most": "most", "partial": "partial", "none": "none", "v80-100": "full", "v60-80": "most", "v40-60": "partial", "v0-40": "none"}


@dataclass
class Ann:
    inst: str  # instance key (becomes the instance token / uuid)
    category: str
    pos: Tuple[float, float, float]  # global (map) position
    yaw: float  # global yaw
    size: Tuple[float, float, float]  # (w, l, h)
    npts: int = 10
    vis: str = "full"  # visibility *token*
    attrs: Tuple[str, ...] = ()
    quat: Optional[Tuple[float, float, float, float]] = None  # overrides yaw when given
    key: Optional[str] = None  # scenario-level key
    radar_pts: int = 0  # radar returns inside the box (a separate annotation field, not part of the lidar point count)

    def q(self) -> Tuple[float, float, float, float]:
        return self.quat if self.quat is not None else G.quat_from_yaw(self.yaw)


@dataclass
class Sample:
    t: int  # unix time [us]
    ego_pos: Tuple[float, float, float]
    ego_yaw: float
    anns: List[Ann] = field(default_factory=list)
    ego_quat: Optional[Tuple[float, float, float, float]] = None

    def eq(self) -> Tuple[float, float, float, float]:
        return self.ego_quat if self.ego_quat is not None else G.quat_from_yaw(self.ego_yaw)


@dataclass
class SceneSpec:
    samples: List[Sample]
    lidar_channel: str = "LIDAR_TOP"
    extra_sensors: List[Tuple[str, str, Tuple[float, float, float], Tuple[float, float, float, float]]] = field(default_factory=list)
    vis_style: Optional[str] = "plain"  # None => empty visibility table
    categories: Optional[List[str]] = None
    attributes: Optional[List[str]] = None
    pointclouds: Optional[List[np.ndarray]] = None  # per sample (N,4) arrays written as .pcd.bin
    raw_files: bool = False  # also write a (tiny) raw file for every non-lidar sensor, so that load_raw_data=True works
    sensor_ego_offset: Optional[Tuple[float, float, float]] = None  # non-lidar sensors captured at a slightly other ego pose
    record_stamp_offset_us: int = 0  # sensor records stamped this much before their sample (sweep start vs key-frame time)
    instance_names: bool = False  # write the optional T4 column instance.instance_name ("<prefix>::<readable id>")
    scene_starts: Tuple[int, ...] = (0,)  # sample indices at which a new scene record begins (nuScenes-style multi-scene tables)


def tok(kind: str, i: Any) -> str:
    import hashlib

    return hashlib.md5(f"{kind}:{i}".encode()).hexdigest()


class DatasetDir:
    """Context manager owning one scratch dataset directory."""

    def __init__(self, spec: SceneSpec):
        self.spec = spec
        self.root = tempfile.mkdtemp(prefix="verif-ds-", dir=SCRATCH_BASE)
        self.result_root = os.path.join(self.root, "_result")
        self.tables: Dict[str, list] = {}
        write_dataset(self.root, spec, self.tables)

    def __enter__(self) -> "DatasetDir":
        return self

    def __exit__(self, *exc: Any) -> None:
        shutil.rmtree(self.root, ignore_errors=True)


def write_dataset(root: str, spec: SceneSpec, tables: Optional[Dict[str, list]] = None) -> None:
    ann_dir = os.path.join(root, "annotation")
    os.makedirs(ann_dir)
    os.makedirs(os.path.join(root, "maps"))
    os.makedirs(os.path.join(root, "data", spec.lidar_channel))
    cats = list(spec.categories) if spec.categories is not None else sorted({a.category for s in spec.samples for a in s.anns})
    for s in spec.samples:
        for a in s.anns:
            if a.category not in cats:
                cats.append(a.category)
    if not cats:
        cats = ["car"]
    attrs = list(spec.attributes) if spec.attributes is not None else sorted({x for s in spec.samples for a in s.anns for x in a.attrs})
    category = [{"token": tok("cat", c), "name": c, "description": ""} for c in cats]
    attribute = [{"token": tok("attr", c), "name": c, "description": ""} for c in attrs]
    visibility = []
    if spec.vis_style is not None:
        visibility = [{"token": t, "level": lvl, "description": ""} for t, lvl in VIS_TABLES[spec.vis_style].items()]

    sensors = [(spec.lidar_channel, "lidar", (0.0, 0.0, 0.0), (1.0, 0.0, 0.0, 0.0))] + list(spec.extra_sensors)
    sensor = [{"token": tok("sensor", ch), "channel": ch, "modality": mod} for ch, mod, _, _ in sensors]
    calibrated_sensor = [
        {"token": tok("cs", ch), "sensor_token": tok("sensor", ch), "translation": list(tr), "rotation": list(rot), "camera_intrinsic": []}
        for ch, _, tr, rot in sensors
    ]
    log = [{"token": tok("log", 0), "logfile": "verif", "vehicle": "v", "date_captured": "2026-01-01", "location": "nowhere"}]
    map_ = [{"token": tok("map", 0), "category": "semantic_prior", "filename": "maps/map.png", "log_tokens": [tok("log", 0)]}]
    try:
        from PIL import Image

        Image.new("L", (4, 4)).save(os.path.join(root, "maps", "map.png"))
    except Exception:
        open(os.path.join(root, "maps", "map.png"), "wb").close()

    n = len(spec.samples)
    starts = sorted({0} | {int(i) for i in spec.scene_starts if 0 < int(i) < n}) if n else [0]
    bounds = list(zip(starts, starts[1:] + [n]))
    scene_of = {k: si for si, (a, b) in enumerate(bounds) for k in range(a, b)}
    scene = [
        {
            "token": tok("scene", si),
            "log_token": tok("log", 0),
            "nbr_samples": b - a,
            "first_sample_token": tok("sample", a),
            "last_sample_token": tok("sample", b - 1),
            "name": f"verif-scene-{si}" if si else "verif-scene",
            "description": "generated",
        }
        for si, (a, b) in enumerate(bounds)
    ]
    sample, sample_data, ego_pose, sample_annotation = [], [], [], []
    inst_anns: Dict[str, List[str]] = {}
    inst_cat: Dict[str, str] = {}
    for k, s in enumerate(spec.samples):
        sample.append(
            {
                "token": tok("sample", k),
                "timestamp": int(s.t),
                "prev": tok("sample", k - 1) if (k > 0 and scene_of[k - 1] == scene_of[k]) else "",
                "next": tok("sample", k + 1) if (k < n - 1 and scene_of[k + 1] == scene_of[k]) else "",
                "scene_token": tok("scene", scene_of[k]),
            }
        )
        ego_pose.append({"token": tok("ego", k), "timestamp": int(s.t), "rotation": list(s.eq()), "translation": list(s.ego_pos)})
        for ch, mod, _, _ in sensors:
            fname = f"data/{ch}/{k}.pcd.bin" if mod == "lidar" else f"data/{ch}/{k}.jpg"
            ego_tok = tok("ego", k)
            if mod != "lidar" and spec.sensor_ego_offset is not None:
                # every sensor record refers to the ego pose at ITS capture time (nuScenes style)
                ego_tok = tok(f"ego-{ch}", k)
                ego_pose.append({"token": ego_tok, "timestamp": int(s.t), "rotation": list(s.eq()), "translation": [float(a + b) for a, b in zip(s.ego_pos, spec.sensor_ego_offset)]})
            if mod != "lidar" and spec.raw_files:
                from PIL import Image

                os.makedirs(os.path.join(root, "data", ch), exist_ok=True)
                Image.new("RGB", (4, 3), (k % 255, 0, 0)).save(os.path.join(root, fname))
            sample_data.append(
                {
                    "token": tok(f"sd-{ch}", k),
                    "sample_token": tok("sample", k),
                    "ego_pose_token": ego_tok,
                    "calibrated_sensor_token": tok("cs", ch),
                    "timestamp": int(s.t) - int(spec.record_stamp_offset_us),
                    "fileformat": "pcd" if mod == "lidar" else "jpg",
                    "is_key_frame": True,
                    "height": 0,
                    "width": 0,
                    "filename": fname,
                    "prev": tok(f"sd-{ch}", k - 1) if k > 0 else "",
                    "next": tok(f"sd-{ch}", k + 1) if k < n - 1 else "",
                }
            )
        if spec.pointclouds is None and spec.raw_files:
            np.zeros((3, 5), dtype=np.float32).tofile(os.path.join(root, "data", spec.lidar_channel, f"{k}.pcd.bin"))
        if spec.pointclouds is not None:
            pc = np.asarray(spec.pointclouds[k], dtype=np.float32)
            full = np.zeros((pc.shape[0], 5), dtype=np.float32)
            full[:, : pc.shape[1]] = pc
            full.tofile(os.path.join(root, "data", spec.lidar_channel, f"{k}.pcd.bin"))
        for j, a in enumerate(s.anns):
            t = tok("ann", f"{k}-{a.inst}")
            inst_anns.setdefault(a.inst, []).append(t)
            inst_cat.setdefault(a.inst, a.category)
            sample_annotation.append(
                {
                    "token": t,
                    "sample_token": tok("sample", k),
                    "instance_token": a.inst,
                    "visibility_token": a.vis if spec.vis_style is not None else "",
                    "attribute_tokens": [tok("attr", x) for x in a.attrs],
                    "translation": [float(v) for v in a.pos],
                    "size": [float(v) for v in a.size],
                    "rotation": [float(v) for v in a.q()],
                    "prev": "",
                    "next": "",
                    "num_lidar_pts": int(a.npts),
                    "num_radar_pts": int(a.radar_pts),
                }
            )
    by_tok = {r["token"]: r for r in sample_annotation}
    instance = []
    for inst, toks in inst_anns.items():
        for i, t in enumerate(toks):
            by_tok[t]["prev"] = toks[i - 1] if i > 0 else ""
            by_tok[t]["next"] = toks[i + 1] if i < len(toks) - 1 else ""
        instance.append(
            {
                "token": inst,
                "category_token": tok("cat", inst_cat[inst]),
                "nbr_annotations": len(toks),
                "first_annotation_token": toks[0],
                "last_annotation_token": toks[-1],
            }
        )
        if spec.instance_names:
            instance[-1]["instance_name"] = f"{inst_cat[inst].split('.')[-1]}::{inst_cat[inst].split('.')[-1]}_{len(instance)}"
    out = dict(
        category=category,
        attribute=attribute,
        visibility=visibility,
        instance=instance,
        sensor=sensor,
        calibrated_sensor=calibrated_sensor,
        ego_pose=ego_pose,
        log=log,
        scene=scene,
        sample=sample,
        sample_data=sample_data,
        sample_annotation=sample_annotation,
        map=map_,
    )
    for name, rows in out.items():
        with open(os.path.join(ann_dir, f"{name}.json"), "w") as f:
            json.dump(rows, f)
    if tables is not None:
        tables.update(out)


def global_pose(ego_pos, ego_yaw, box_e) -> Tuple[Tuple[float, float, float], float]:
    """Ego-frame (x, y, z, yaw) -> global position and yaw for a yaw-only ego pose."""
    m = G.homogeneous(ego_pos, G.quat_from_yaw(ego_yaw))
    p = m @ np.array([box_e[0], box_e[1], box_e[2], 1.0])
    return (float(p[0]), float(p[1]), float(p[2])), G.wrap_pi(ego_yaw + box_e[3])
