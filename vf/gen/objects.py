"""Builders of real library objects from abstract specs, plus abstract views of objects."""
from __future__ import annotations

import math
import random
from typing import Any, Dict, List, Optional, Sequence, Tuple

import numpy as np
from pyquaternion import Quaternion

from perception_eval.common.label import AutowareLabel, Label, TrafficLightLabel
from perception_eval.common.object import DynamicObject
from perception_eval.common.object2d import DynamicObject2D
from perception_eval.common.schema import FrameID
from perception_eval.common.shape import Shape, ShapeType
from perception_eval.common.transform import HomogeneousMatrix, TransformDict

from ..oracles import geometry as G

AW = {l.value: l for l in AutowareLabel}
TL = {l.value: l for l in TrafficLightLabel}
ORDINARY = ["car", "truck", "bus", "bicycle", "motorbike", "pedestrian"]


def label(name: str, family: str = "autoware", attributes: Optional[List[str]] = None, raw_name: Optional[str] = None) -> Label:
    table = AW if family == "autoware" else TL
    return Label(table[name], raw_name or name, list(attributes or []))


def quat(yaw: float, negate: bool = False, roll: float = 0.0, pitch: float = 0.0) -> Quaternion:
    q = G.quat_from_yaw(yaw)
    if roll or pitch:
        q = G.quat_mul(q, G.quat_mul(G.quat_from_axis_angle((0, 1, 0), pitch), G.quat_from_axis_angle((1, 0, 0), roll)))
    if negate:
        q = tuple(-v for v in q)
    return Quaternion(q[0], q[1], q[2], q[3])


def obj3d(
    x: float,
    y: float,
    z: float = 0.0,
    yaw: float = 0.0,
    w: float = 2.0,
    l: float = 4.0,
    h: float = 1.5,
    lab: str = "car",
    score: float = 1.0,
    uuid: Optional[str] = None,
    frame: Any = FrameID.BASE_LINK,
    t: int = 100,
    npts: Optional[int] = None,
    velocity: Optional[Tuple[float, float, float]] = (1.0, 0.0, 0.0),
    negate_q: bool = False,
    attributes: Optional[List[str]] = None,
    visibility: Any = None,
    raw_name: Optional[str] = None,
    roll: float = 0.0,
    pitch: float = 0.0,
) -> DynamicObject:
    return DynamicObject(
        unix_time=t,
        frame_id=frame,
        position=(float(x), float(y), float(z)),
        orientation=quat(yaw, negate_q, roll, pitch),
        shape=Shape(ShapeType.BOUNDING_BOX, (float(w), float(l), float(h))),
        velocity=velocity,
        semantic_score=float(score),
        semantic_label=label(lab, "autoware", attributes, raw_name),
        pointcloud_num=npts,
        uuid=uuid,
        visibility=visibility,
    )


def obj2d(
    roi: Optional[Tuple[int, int, int, int]],
    lab: str = "car",
    family: str = "autoware",
    score: float = 1.0,
    uuid: Optional[str] = None,
    frame: Any = FrameID.CAM_FRONT,
    t: int = 100,
    raw_name: Optional[str] = None,
) -> DynamicObject2D:
    return DynamicObject2D(
        unix_time=t,
        frame_id=frame,
        semantic_score=float(score),
        semantic_label=label(lab, family, raw_name=raw_name),
        roi=roi,
        uuid=uuid,
    )


def box_of(o: DynamicObject) -> Tuple[float, float, float, float, float, float, float]:
    """(cx, cy, cz, yaw, w, l, h) with yaw recovered by the oracle's own algebra."""
    q = o.state.orientation
    yaw = G.yaw_of_quat((q.w, q.x, q.y, q.z))
    p = o.state.position
    s = o.state.size
    return (float(p[0]), float(p[1]), float(p[2]), yaw, float(s[0]), float(s[1]), float(s[2]))


def lab_of(o: Any) -> str:
    return str(o.semantic_label.label.value)


def is_fp_label(o: Any) -> bool:
    return lab_of(o) == "false_positive"


def is_unknown_label(o: Any) -> bool:
    return lab_of(o) == "unknown"


def frame_of(o: Any) -> str:
    f = o.frame_id
    return f.value if hasattr(f, "value") else str(f)


def ego2map(pos: Sequence[float], yaw: float) -> HomogeneousMatrix:
    return HomogeneousMatrix(np.array(pos, dtype=float), Quaternion(*G.quat_from_yaw(yaw)), src=FrameID.BASE_LINK, dst=FrameID.MAP)


def transforms_for(pos: Sequence[float], yaw: float) -> TransformDict:
    return TransformDict([ego2map(pos, yaw)])


def ego_T_map(pos: Sequence[float], yaw: float) -> np.ndarray:
    """Oracle's own 4x4: map -> ego."""
    return G.inv_rigid(G.homogeneous(pos, G.quat_from_yaw(yaw)))


def to_map(o: DynamicObject, pos: Sequence[float], yaw: float) -> DynamicObject:
    """Render an ego-frame object in the map frame for the ego pose (pos, yaw) with oracle algebra."""
    b = box_of(o)
    m = G.homogeneous(pos, G.quat_from_yaw(yaw))
    p = m @ np.array([b[0], b[1], b[2], 1.0])
    q = o.state.orientation
    qm = G.quat_mul(G.quat_from_yaw(yaw), (q.w, q.x, q.y, q.z))
    return DynamicObject(
        unix_time=o.unix_time,
        frame_id=FrameID.MAP,
        position=(float(p[0]), float(p[1]), float(p[2])),
        orientation=Quaternion(*qm),
        shape=Shape(ShapeType.BOUNDING_BOX, tuple(float(v) for v in o.state.size)),
        velocity=o.state.velocity,
        semantic_score=o.semantic_score,
        semantic_label=Label(o.semantic_label.label, o.semantic_label.name, list(o.semantic_label.attributes)),
        pointcloud_num=o.pointcloud_num,
        uuid=o.uuid,
        visibility=o.visibility,
    )


def describe(o: Any) -> Dict[str, Any]:
    if o is None:
        return None
    d: Dict[str, Any] = {"label": lab_of(o), "score": o.semantic_score, "uuid": o.uuid, "frame": frame_of(o)}
    if isinstance(o, DynamicObject):
        b = box_of(o)
        d.update(pos=[round(v, 6) for v in b[:3]], yaw=round(b[3], 6), size=[b[4], b[5], b[6]], npts=o.pointcloud_num)
    else:
        d.update(roi=None if o.roi is None else [*o.roi.offset, *o.roi.size])
    return d


# ----------------------------------------------------------------------------------------
# random object sets
# ----------------------------------------------------------------------------------------
def rand_yaw(r: random.Random) -> float:
    k = r.random()
    if k < 0.15:
        return r.choice([0.0, math.pi / 2, -math.pi / 2, math.pi, -math.pi + 1e-9, math.pi / 4])
    return r.uniform(-math.pi, math.pi)


def rand_size(r: random.Random) -> Tuple[float, float, float]:
    k = r.random()
    if k < 0.05:
        return (r.uniform(0.001, 0.01), r.uniform(10, 50), r.uniform(0.5, 3))  # sliver
    if k < 0.1:
        return (r.uniform(100, 1000), r.uniform(100, 1000), r.uniform(1, 10))  # huge
    return (r.uniform(0.3, 3.0), r.uniform(0.3, 8.0), r.uniform(0.5, 3.5))
