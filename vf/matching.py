"""Reference model of the matcher + the tap on ``get_object_results`` (shared by C01, C02, C07...)."""
from __future__ import annotations

import math
import random
from typing import Any, Callable, Dict, List, Optional, Sequence, Tuple

import numpy as np

from perception_eval.common.evaluation_task import EvaluationTask
from perception_eval.common.object import DynamicObject
from perception_eval.common.object2d import DynamicObject2D
from perception_eval.common.schema import FrameID
from perception_eval.evaluation.matching import MatchingLabelPolicy, MatchingMode
import perception_eval.evaluation.result.object_result as object_result_mod

from .core import BOUNDARY, Ctx, Taps, guarded
from .gen import objects as O
from .oracles import geometry as G

def _lib_of():
    # library functions are called from the modules that define them (not through a name another module happens to import)
    import perception_eval.evaluation.matching.objects_filter as m

    return m


def _lib_or():
    import perception_eval.evaluation.result.object_result as m

    return m


MAXIMIZE = {MatchingMode.IOU2D: True, MatchingMode.IOU3D: True, MatchingMode.CENTERDISTANCE: False, MatchingMode.PLANEDISTANCE: False}


# ----------------------------------------------------------------------------------------
# oracle pieces
# ----------------------------------------------------------------------------------------
def ego_T_of(obj_frame: str, transforms: Any) -> Optional[np.ndarray]:
    """4x4 mapping the object's frame to the ego frame, from the matrices *stored* in the registry,
    inverted with the oracle's own algebra."""
    if obj_frame == "base_link":
        return None
    if transforms is None:
        return None
    m = transforms.get((FrameID.BASE_LINK, obj_frame))
    if m is not None:
        return G.inv_rigid(np.asarray(m.matrix, dtype=float))
    m = transforms.get((obj_frame, FrameID.BASE_LINK))
    if m is not None:
        return np.asarray(m.matrix, dtype=float)
    return None


def roi_rect(o: DynamicObject2D) -> Tuple[float, float, float, float]:
    x, y = o.roi.offset
    w, h = o.roi.size
    return float(x), float(y), float(x + w), float(y + h)


def roi_center(o: DynamicObject2D) -> Tuple[float, float]:
    # the documented ROI centre is the integer pixel (offset + size // 2)
    x, y = o.roi.offset
    w, h = o.roi.size
    return float(x + w // 2), float(y + h // 2)


def rect_iou(a, b) -> float:
    ix = max(0.0, min(a[2], b[2]) - max(a[0], b[0]))
    iy = max(0.0, min(a[3], b[3]) - max(a[1], b[1]))
    inter = ix * iy
    ua = (a[2] - a[0]) * (a[3] - a[1]) + (b[2] - b[0]) * (b[3] - b[1]) - inter
    return inter / ua


def oracle_score(est: Any, gt: Any, mode: MatchingMode, transforms: Any) -> Tuple[float, float]:
    """(score, ambiguity) by the oracle's own geometry. ambiguity < BOUNDARY => do not assert exactly."""
    if isinstance(est, DynamicObject):
        be, bg = O.box_of(est), O.box_of(gt)
        if mode == MatchingMode.CENTERDISTANCE:
            return G.center_distance(be, bg), 1.0
        if mode == MatchingMode.IOU2D:
            return G.iou_bev(be, bg), 1.0
        if mode == MatchingMode.IOU3D:
            return G.iou_3d(be, bg), 1.0
        T = ego_T_of(O.frame_of(gt), transforms)
        d, margin = G.plane_distance(be, bg, T)
        return d, margin
    if mode == MatchingMode.CENTERDISTANCE:
        ce, cg = roi_center(est), roi_center(gt)
        return math.hypot(ce[0] - cg[0], ce[1] - cg[1]), 1.0
    if mode == MatchingMode.IOU2D:
        return rect_iou(roi_rect(est), roi_rect(gt)), 1.0
    raise ValueError("unsupported mode for 2D")


def d16_instance(est: Any, gt: Any, mode: MatchingMode, oracle_value: float) -> bool:
    """Deterministic classification of known finding D16 (see known_findings.json, property C06)."""
    if mode not in (MatchingMode.IOU2D, MatchingMode.IOU3D) or not isinstance(est, DynamicObject) or not oracle_value > 1e-8:
        return False
    if not G.boxes_collinear(O.box_of(est), O.box_of(gt)):
        return False
    from perception_eval.evaluation.matching import IOU2dMatching, IOU3dMatching

    lib = (IOU2dMatching if mode == MatchingMode.IOU2D else IOU3dMatching)(est, gt).value
    return lib == 0.0


def threshold_margin(mode: MatchingMode, s: float, t: float) -> float:
    """How far the decision "s is better than t" is from flipping. Two decisions against a threshold of exactly 0 are
    structurally exact, not numerically delicate: no distance is closer than 0, and the IoU of boxes that do not
    overlap is exactly 0.0, which does not beat 0.0 ("better than" is strict)."""
    if t == 0.0 and (not MAXIMIZE[mode] or s == 0.0):
        return float("inf")
    return abs(s - t)


def better(mode: MatchingMode, a: float, b: float) -> bool:
    return a > b if MAXIMIZE[mode] else a < b


def at_least_as_good(mode: MatchingMode, a: float, b: float, tol: float = 1e-9) -> bool:
    return a >= b - tol if MAXIMIZE[mode] else a <= b + tol


def label_threshold(obj: Any, target_labels: Optional[Sequence[Any]], thresholds: Optional[Sequence[float]]) -> Optional[float]:
    if target_labels is None or thresholds is None:
        return None
    lab = obj.semantic_label.label
    for i, t in enumerate(target_labels):
        if t is lab or t == lab:
            return thresholds[i]
    return None


def compatible(policy: MatchingLabelPolicy, est: Any, gt: Any) -> bool:
    """Label compatibility re-stated from the documentation."""
    if O.is_fp_label(gt) or policy == MatchingLabelPolicy.ALLOW_ANY:
        return True
    same = O.lab_of(est) == O.lab_of(gt) and type(est.semantic_label.label) is type(gt.semantic_label.label)
    if policy == MatchingLabelPolicy.ALLOW_UNKNOWN:
        return same or O.is_unknown_label(est)
    return same


class Table:
    """Oracle's own candidate table for one call."""

    def __init__(self, ests, gts, target_labels, policy, mode, thresholds, transforms):
        self.ests, self.gts, self.mode, self.policy = ests, gts, mode, policy
        n, m = len(ests), len(gts)
        self.score = np.full((n, m), np.nan)
        self.ok = np.zeros((n, m), dtype=bool)  # matchable
        self.compat = np.zeros((n, m), dtype=bool)
        self.near_boundary = False
        self.thr: List[Optional[float]] = [label_threshold(g, target_labels, thresholds) for g in gts]
        for i, e in enumerate(ests):
            for j, g in enumerate(gts):
                if O.frame_of(e) != O.frame_of(g):
                    continue
                s, amb = oracle_score(e, g, mode, transforms)
                self.score[i, j] = s
                if amb < BOUNDARY:
                    self.near_boundary = True
                t = self.thr[j]
                if t is not None and threshold_margin(mode, s, t) < BOUNDARY:
                    self.near_boundary = True
                self.ok[i, j] = t is None or better(mode, s, t)
                self.compat[i, j] = compatible(policy, e, g)

    def has_ties(self) -> bool:
        vals = np.sort(self.score[self.ok])
        return bool(len(vals) > 1 and np.min(np.diff(vals)) <= BOUNDARY)

    def greedy(self) -> List[Tuple[int, int]]:
        """Documented two-stage greedy (valid as an exact reference only without ties)."""
        n, m = self.score.shape
        free_e, free_g = set(range(n)), set(range(m))
        pairs: List[Tuple[int, int]] = []
        for stage in (1, 2):
            while True:
                best = None
                for i in free_e:
                    for j in free_g:
                        if not self.ok[i, j] or (stage == 1 and not self.compat[i, j]):
                            continue
                        if best is None or better(self.mode, self.score[i, j], self.score[best]):
                            best = (i, j)
                if best is None:
                    break
                pairs.append(best)
                free_e.discard(best[0])
                free_g.discard(best[1])
        return pairs


def is_geometry_call(ests: Sequence[Any], gts: Sequence[Any]) -> bool:
    if not ests or not gts:
        return True
    e0, g0 = ests[0], gts[0]
    if isinstance(e0, DynamicObject2D) and (e0.roi is None or g0.roi is None):
        return False
    return True


def bind_args(args, kwargs) -> Dict[str, Any]:
    names = [
        "evaluation_task",
        "estimated_objects",
        "ground_truth_objects",
        "target_labels",
        "matching_label_policy",
        "matching_mode",
        "matchable_thresholds",
        "transforms",
        "uuid_matching_first",
    ]
    d: Dict[str, Any] = {
        "target_labels": None,
        "matching_label_policy": MatchingLabelPolicy.DEFAULT,
        "matching_mode": MatchingMode.CENTERDISTANCE,
        "matchable_thresholds": None,
        "transforms": None,
        "uuid_matching_first": False,
    }
    for n, v in zip(names, args):
        d[n] = v
    d.update(kwargs)
    return d


# ----------------------------------------------------------------------------------------
# the tap
# ----------------------------------------------------------------------------------------
def install_matching_tap(taps: Taps, ctx: Ctx, clauses: Sequence[str] = ("C01", "C02"), on_result: Optional[Callable] = None) -> None:
    def factory(orig):
        def wrapper(*args, **kwargs):
            a = bind_args(args, kwargs)
            ests, gts = a["estimated_objects"], a["ground_truth_objects"]
            ctx.count("get_object_results.calls")
            snap_e, snap_g = list(ests), list(gts)
            results = orig(*args, **kwargs)
            if not is_geometry_call(ests, gts):
                ctx.count("get_object_results.skipped_precondition")
                return results
            guarded(ctx, "get_object_results", lambda: judge(ctx, a, snap_e, snap_g, results, clauses))
            if on_result is not None:
                on_result(a, results)
            return results

        return wrapper

    taps.fn(object_result_mod, "get_object_results", factory)


def judge(ctx: Ctx, a: Dict[str, Any], snap_e, snap_g, results, clauses) -> None:
    ests, gts = a["estimated_objects"], a["ground_truth_objects"]
    task = a["evaluation_task"]
    mode, policy = a["matching_mode"], a["matching_label_policy"]
    fpv = task.is_fp_validation() if isinstance(task, EvaluationTask) else False
    tap = "get_object_results"
    info = lambda **kw: dict(task=str(task), mode=str(mode), policy=str(policy.value), n_est=len(snap_e), n_gt=len(snap_g), **kw)  # noqa: E731

    e_index = {id(o): i for i, o in enumerate(snap_e)}
    g_index = {id(o): j for j, o in enumerate(snap_g)}
    tab = Table(snap_e, snap_g, a["target_labels"], policy, mode, a["matchable_thresholds"], a["transforms"])

    pairs: Dict[int, int] = {}
    if "C01" in clauses:
        ctx.count("C01.checked")
        # caller's lists untouched
        ctx.check(
            len(ests) == len(snap_e) and all(x is y for x, y in zip(ests, snap_e)) and len(gts) == len(snap_g) and all(x is y for x, y in zip(gts, snap_g)),
            "C01/caller_list_mutated",
            info(),
            tap,
        )
    seen_e: Dict[int, int] = {}
    seen_g: Dict[int, int] = {}
    alien = False
    for r in results:
        ie = e_index.get(id(r.estimated_object))
        if ie is None:
            alien = True
            continue
        seen_e[ie] = seen_e.get(ie, 0) + 1
        if r.ground_truth_object is not None:
            jg = g_index.get(id(r.ground_truth_object))
            if jg is None:
                alien = True
                continue
            seen_g[jg] = seen_g.get(jg, 0) + 1
            pairs[ie] = jg
    if "C01" in clauses:
        ctx.check(not alien, "C01/alien_object_in_results", info(), tap)
        ctx.check(all(c == 1 for c in seen_e.values()), "C01/estimate_used_twice", info(dup=[k for k, c in seen_e.items() if c > 1]), tap)
        ctx.check(all(c == 1 for c in seen_g.values()), "C01/ground_truth_used_twice", info(dup=[k for k, c in seen_g.items() if c > 1]), tap)
        if fpv:
            ctx.check(all(r.ground_truth_object is not None for r in results), "C01/fp_validation_keeps_unpaired_estimate", info(), tap)
        else:
            ctx.check(len(seen_e) == len(snap_e), "C01/estimate_missing_from_results", info(missing=[i for i in range(len(snap_e)) if i not in seen_e][:5]), tap)
        for ie, jg in pairs.items():
            e, g = snap_e[ie], snap_g[jg]
            ctx.check(O.frame_of(e) == O.frame_of(g), "C01/pair_across_frames", info(est=O.describe(e), gt=O.describe(g)), tap)
            t = tab.thr[jg]
            s = tab.score[ie, jg]
            if t is not None and not np.isnan(s):
                if threshold_margin(mode, s, t) < BOUNDARY:
                    ctx.count("get_object_results.skipped_boundary")
                else:
                    ctx.check(better(mode, s, t), "C01/pair_beyond_matchable_radius", info(score=float(s), radius=t, est=O.describe(e), gt=O.describe(g)), tap)

    if "C02" in clauses and len(snap_e) and len(snap_g):
        ctx.count("C02.checked")
        if tab.near_boundary:
            ctx.count("C02.skipped_boundary")
            return
        inv_pairs = {j: i for i, j in pairs.items()}
        n, m = tab.score.shape

        def matched_compatibly_e(i):
            return i in pairs and tab.compat[i, pairs[i]]

        def matched_compatibly_g(j):
            return j in inv_pairs and tab.compat[inv_pairs[j], j]

        n_block = 0
        for i in range(n):
            for j in range(m):
                if not tab.ok[i, j] or pairs.get(i) == j:
                    continue
                s = tab.score[i, j]
                if tab.compat[i, j]:
                    good = (matched_compatibly_e(i) and at_least_as_good(mode, tab.score[i, pairs[i]], s)) or (
                        matched_compatibly_g(j) and at_least_as_good(mode, tab.score[inv_pairs[j], j], s)
                    )
                    mech = "C02/blocking_compatible_pair"
                else:
                    good = (
                        matched_compatibly_e(i)
                        or matched_compatibly_g(j)
                        or (i in pairs and at_least_as_good(mode, tab.score[i, pairs[i]], s))
                        or (j in inv_pairs and at_least_as_good(mode, tab.score[inv_pairs[j], j], s))
                    )
                    mech = "C02/blocking_incompatible_pair"
                if not good and d16_instance(snap_e[i], snap_g[j], mode, float(s)):
                    # the library scored this overlapping pair 0.0: known finding D16 of C06 (GEOS overlay on footprints
                    # with an edge on a common line within rounding), a defect of the score, not of the assignment
                    ctx.count("C02.skipped_known_finding_C06_collinear_iou")
                    return
                if not good:
                    n_block += 1
                    ctx.violation(
                        mech,
                        info(
                            est=O.describe(snap_e[i]),
                            gt=O.describe(snap_g[j]),
                            score=float(s),
                            est_partner=None if i not in pairs else O.describe(snap_g[pairs[i]]),
                            gt_partner=None if j not in inv_pairs else O.describe(snap_e[inv_pairs[j]]),
                        ),
                        tap=tap,
                    )
                    break
            if n_block:
                break
        ctx.count("C02.blocking_checked")
        # a pair must be matchable at all
        for i, j in pairs.items():
            ctx.check(bool(tab.ok[i, j]), "C02/unmatchable_pair_matched", info(est=O.describe(snap_e[i]), gt=O.describe(snap_g[j])), tap)
        if not tab.has_ties():
            ref = set(tab.greedy())
            got = set(pairs.items())
            ctx.count("C02.exact_checked")
            ctx.check(ref == got, "C02/differs_from_two_stage_greedy", info(expected=sorted(ref), observed=sorted(got)), tap)
        else:
            ctx.count("C02.ties_predicate_only")
        contested = int(((tab.ok & tab.compat).sum(axis=0) >= 2).sum())
        closer_incompat = 0
        for j in range(m):
            col = tab.score[:, j]
            okc = tab.ok[:, j] & tab.compat[:, j]
            oki = tab.ok[:, j] & ~tab.compat[:, j]
            if okc.any() and oki.any():
                bc = np.nanmax(col[okc]) if MAXIMIZE[mode] else np.nanmin(col[okc])
                bi = np.nanmax(col[oki]) if MAXIMIZE[mode] else np.nanmin(col[oki])
                if better(mode, bi, bc):
                    closer_incompat += 1
        if contested:
            ctx.count("C02.contested_cases")
        if closer_incompat:
            ctx.count("C02.closer_incompatible_cases")


# ----------------------------------------------------------------------------------------
# workload: hostile object sets for the matcher
# ----------------------------------------------------------------------------------------
LABELS_EST = O.ORDINARY + ["unknown"]
LABELS_GT = O.ORDINARY + ["false_positive", "unknown"]
CAMERAS = [FrameID.CAM_FRONT, FrameID.CAM_BACK, FrameID.CAM_TRAFFIC_LIGHT_NEAR]


def gen_matching_case(r: random.Random, max_n: int = 24, force_2d: Optional[bool] = None) -> Dict[str, Any]:
    is2d = r.random() < 0.25 if force_2d is None else force_2d
    n_gt = r.choice([0, 0, 1, 1, 2, 3, 4, 6, 8, 12, max_n]) if r.random() < 0.7 else r.randint(0, max_n)
    n_est = r.choice([0, 1, 1, 2, 3, 4, 6, 8, 12, max_n]) if r.random() < 0.7 else r.randint(0, max_n)
    policy = r.choice(list(MatchingLabelPolicy))
    few_labels = r.random() < 0.5
    labs = r.sample(O.ORDINARY, 2) if few_labels else O.ORDINARY
    kind = r.choice(["none", "none", "per_label", "per_label", "tiny", "huge", "zero", "one_zero"])
    fpv = r.random() < 0.2
    case: Dict[str, Any] = {"is2d": is2d, "policy": policy.value, "radius_kind": kind, "fpv": fpv}

    family = "autoware"
    uuid_first = None
    if is2d:
        mode = r.choice([MatchingMode.CENTERDISTANCE, MatchingMode.IOU2D])
        if r.random() < 0.3:
            # traffic-light boxes WITH a ROI are geometry like any other 2D box, whatever the uuid-first option says
            family, fpv = "traffic_light", False
            labs = r.sample(["green", "red", "yellow", "red_left"], 2) if few_labels else ["green", "red", "yellow", "red_left"]
            uuid_first = r.random() < 0.5
            case.update(family=family, uuid_first=uuid_first, fpv=False)
        task = (EvaluationTask.FP_VALIDATION2D if fpv else r.choice([EvaluationTask.DETECTION2D, EvaluationTask.TRACKING2D]))
        cams = r.sample(CAMERAS, r.choice([1, 1, 2, 3]))
        gts, ests = [], []
        for k in range(n_gt):
            x, y = r.randint(0, 1500), r.randint(0, 900)
            w, h = r.randint(1, 300), r.randint(1, 300)
            lab = "false_positive" if (fpv or (r.random() < 0.12 and family == "autoware")) else r.choice(labs)
            gts.append(O.obj2d((x, y, w, h), lab, family=family, uuid=f"g{k}", frame=r.choice(cams)))
        for k in range(n_est):
            if gts and r.random() < 0.75:
                g = r.choice(gts)
                gx, gy = g.roi.offset
                gw, gh = g.roi.size
                if r.random() < 0.15:
                    roi = (gx, gy, gw, gh)
                else:
                    roi = (max(0, gx + r.randint(-40, 40)), max(0, gy + r.randint(-40, 40)), max(1, gw + r.randint(-20, 20)), max(1, gh + r.randint(-20, 20)))
                frame = g.frame_id if r.random() < 0.85 else r.choice(cams)
                lab = O.lab_of(g) if (r.random() < 0.6 and not O.is_fp_label(g)) else r.choice(labs + ["unknown"])
            else:
                roi = (r.randint(0, 1500), r.randint(0, 900), r.randint(1, 300), r.randint(1, 300))
                frame = r.choice(cams)
                lab = r.choice(labs + ["unknown"])
            # (traffic-light estimates often carry the uuid of a ground truth: the regulatory element id)
            eu = r.choice(gts).uuid if (family == "traffic_light" and gts and r.random() < 0.6) else f"e{k}"
            ests.append(O.obj2d(roi, lab, family=family, score=round(r.random(), 3), uuid=eu, frame=frame))
        transforms = None
    else:
        mode = r.choice(list(MatchingMode))
        task = EvaluationTask.FP_VALIDATION if fpv else r.choice([EvaluationTask.DETECTION, EvaluationTask.TRACKING])
        frame_kind = r.choice(["ego", "ego", "map", "mixed"])
        ego_pos = (r.uniform(-1e4, 1e4), r.uniform(-1e4, 1e4), r.uniform(-5, 5)) if r.random() < 0.5 else (r.uniform(-50, 50), r.uniform(-50, 50), 0.0)
        ego_yaw = O.rand_yaw(r)
        transforms = O.transforms_for(ego_pos, ego_yaw) if (frame_kind != "ego" or r.random() < 0.3) else None
        case.update(frame_kind=frame_kind, ego_pos=ego_pos, ego_yaw=ego_yaw)
        gts_e, ests_e = [], []
        spread = r.choice([5.0, 30.0, 80.0])
        for k in range(n_gt):
            w, l, h = O.rand_size(r) if r.random() < 0.15 else (r.uniform(0.5, 2.5), r.uniform(0.5, 6), r.uniform(1, 3))
            # FP validation data may also hold ordinarily labelled ground truth (the task changes what is kept, not how
            # pairs are formed)
            lab = "false_positive" if ((fpv and r.random() < 0.75) or r.random() < 0.12) else r.choice(labs + (["unknown"] if r.random() < 0.1 else []))
            gts_e.append(O.obj3d(r.uniform(-spread, spread), r.uniform(-spread, spread), r.uniform(-1, 1), O.rand_yaw(r), w, l, h, lab, uuid=f"g{k}", npts=r.randint(0, 50)))
        if gts_e and r.random() < 0.12:
            # a doubly annotated object: two ground truths with the same pose and label (equal under the library's object
            # equality) but their own uuid - two ground truths all the same
            src = r.choice(gts_e)
            b0 = O.box_of(src)
            dup = O.obj3d(*b0, O.lab_of(src), uuid=f"{src.uuid}dup", npts=r.randint(0, 50))
            dup.state.position, dup.state.orientation = src.state.position, src.state.orientation
            gts_e.append(dup)
            case.update(duplicate_gt=True)
        for k in range(n_est):
            coincident_with = None
            if gts_e and r.random() < 0.8:
                g = r.choice(gts_e)
                b = O.box_of(g)
                if r.random() < 0.12:  # coincident -> exact ties
                    x, y, z, yaw, w, l, h = b
                    coincident_with = g
                else:
                    sig = r.choice([0.05, 0.3, 1.0, 3.0])
                    x, y, z = b[0] + r.gauss(0, sig), b[1] + r.gauss(0, sig), b[2] + r.gauss(0, 0.2)
                    yaw = b[3] + r.gauss(0, 0.2)
                    w, l, h = max(0.05, b[4] + r.gauss(0, 0.2)), max(0.05, b[5] + r.gauss(0, 0.4)), max(0.05, b[6] + r.gauss(0, 0.2))
                lab = O.lab_of(g) if (r.random() < 0.6 and not O.is_fp_label(g)) else r.choice(labs + ["unknown"])
            else:
                x, y, z, yaw = r.uniform(-spread, spread), r.uniform(-spread, spread), r.uniform(-1, 1), O.rand_yaw(r)
                w, l, h = r.uniform(0.5, 2.5), r.uniform(0.5, 6), r.uniform(1, 3)
                lab = r.choice(labs + ["unknown"])
            twin_of = None
            if ests_e and r.random() < 0.12:
                # same pose and label as an earlier estimate (equal under the library's object equality) but another
                # size / confidence: only identity distinguishes the two
                twin_of = ests_e[r.randrange(len(ests_e))]
                b0 = O.box_of(twin_of)
                x, y, z, yaw = b0[:4]
                lab = O.lab_of(twin_of)
                w, l, h = b0[4] * r.uniform(0.5, 1.6), b0[5] * r.uniform(0.5, 1.6), b0[6] * r.uniform(0.7, 1.3)
            eo = O.obj3d(x, y, z, yaw, w, l, h, lab, score=round(r.random(), 3), uuid=f"e{k}", negate_q=r.random() < 0.3)
            if twin_of is not None:
                eo.state.position = twin_of.state.position
                eo.state.orientation = twin_of.state.orientation
            elif coincident_with is not None:
                # bit-identical pose (exact ties). A pose rebuilt from the recovered yaw would differ in the last bit,
                # which is the input class of known finding D16 (C06) and is explored there, not here.
                eo.state.position = coincident_with.state.position
                eo.state.orientation = coincident_with.state.orientation
            ests_e.append(eo)

        def render(o):
            if frame_kind == "ego":
                return o
            if frame_kind == "map":
                return O.to_map(o, ego_pos, ego_yaw)
            return O.to_map(o, ego_pos, ego_yaw) if r.random() < 0.5 else o

        gts = [render(o) for o in gts_e]
        ests = [render(o) for o in ests_e]

    # label targets / radii
    fam_labels = sorted({o.semantic_label.label for o in gts + ests}, key=lambda x: x.value)
    if r.random() < 0.5 and fam_labels:
        target_labels = r.sample(fam_labels, r.randint(1, len(fam_labels)))
    else:
        from perception_eval.common.label import AutowareLabel, TrafficLightLabel

        if family == "traffic_light":
            target_labels = [TrafficLightLabel(v) for v in ["green", "red", "yellow", "red_left"]] + ([TrafficLightLabel.UNKNOWN] if r.random() < 0.5 else [])
        else:
            target_labels = [AutowareLabel(v) for v in O.ORDINARY] + ([AutowareLabel.UNKNOWN] if r.random() < 0.5 else []) + ([AutowareLabel.FP] if r.random() < 0.3 else [])
    iou = MAXIMIZE[mode]
    if kind == "none":
        radii = None
    elif kind == "per_label":
        radii = [round(r.uniform(0.05, 0.9), 3) if iou else round(r.uniform(0.2, 8.0), 3) for _ in target_labels]
    elif kind == "zero":
        radii = [0.0 for _ in target_labels]  # distance: nothing is closer than 0; IoU: any overlap at all
    elif kind == "one_zero":
        radii = [round(r.uniform(0.05, 0.9), 3) if iou else round(r.uniform(0.2, 8.0), 3) for _ in target_labels]
        radii[r.randrange(len(radii))] = r.choice([0.0, 0])
    elif kind == "tiny":
        radii = [0.95 if iou else 0.01 for _ in target_labels]
    else:
        radii = [0.0 if iou else 1e6 for _ in target_labels]
    if r.random() < 0.1:
        target_labels_arg = None  # radii without labels => no radius applies
    else:
        target_labels_arg = target_labels
    case.update(mode=mode.value, task=task.value, n_est=len(ests), n_gt=len(gts))
    return {
        "case": case,
        "kwargs": dict(
            evaluation_task=task,
            estimated_objects=ests,
            ground_truth_objects=gts,
            target_labels=target_labels_arg,
            matching_label_policy=policy,
            matching_mode=mode,
            matchable_thresholds=radii,
            transforms=transforms,
            **({} if uuid_first is None else {"uuid_matching_first": uuid_first}),
        ),
    }


def run_direct_matching(ctx: Ctx, workload: str, n_cases: int, max_n: int = 24) -> None:
    """Drive the real ``get_object_results`` (through the manager's alias, i.e. the tapped binding)."""
    import perception_eval.manager.perception_evaluation_manager as mgr_mod

    for idx in ctx.indices(workload, n_cases):
        r = ctx.rng(workload, idx)
        c = gen_matching_case(r, max_n=(60 if idx % 40 == 7 else max_n))  # a few large sets ("dozens")
        ctx.begin_case(workload, idx, **c["case"])
        kw = c["kwargs"]
        try:
            res = _lib_or().get_object_results(**kw)
        except Exception as e:  # valid inputs must not raise
            ctx.violation(
                f"C01/exception:{type(e).__name__}",
                dict(c["case"], error=str(e)[:300], ests=[O.describe(o) for o in kw["estimated_objects"][:4]], gts=[O.describe(o) for o in kw["ground_truth_objects"][:4]]),
                tap="get_object_results",
            )
            continue
        cc = c["case"]
        n_pairs = sum(1 for x in res if x.ground_truth_object is not None)
        sig = (
            cc["is2d"],
            cc["mode"],
            cc["policy"],
            cc["radius_kind"],
            cc["fpv"],
            cc.get("frame_kind", "cam"),
            min(cc["n_est"], 3),
            min(cc["n_gt"], 3),
            "paired" if n_pairs else "nopair",
            "unpaired" if n_pairs < cc["n_est"] else "all",
        )
        ctx.case(sig, nontrivial=cc["n_est"] > 0 and cc["n_gt"] > 0, sample=dict(cc, n_results=len(res), n_pairs=n_pairs) if idx < 40 else None)
        if cc["n_est"] == 0 or cc["n_gt"] == 0:
            ctx.count("matching.empty_corner_cases")
        if cc["fpv"] and cc["n_gt"] == 0 and cc["n_est"] > 0:
            ctx.count("matching.fpv_empty_gt_cases")
