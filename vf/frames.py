"""Directly constructed frames (no dataset): hostile placement of objects around the critical bounds."""
from __future__ import annotations

import atexit
import math
import random
import shutil
import tempfile
from typing import Any, Dict, List, Optional, Tuple

from .core import Ctx
from .gen import dataset as D
from .gen import objects as O

_SCRATCH: Optional[str] = None


def _lib_of():
    # library functions are called from the modules that define them (not through a name another module happens to import)
    import perception_eval.evaluation.matching.objects_filter as m

    return m


def _lib_or():
    import perception_eval.evaluation.result.object_result as m

    return m


def scratch_dir() -> str:
    global _SCRATCH
    if _SCRATCH is None:
        _SCRATCH = tempfile.mkdtemp(prefix="verif-res-", dir=D.SCRATCH_BASE)
        atexit.register(lambda: shutil.rmtree(_SCRATCH, ignore_errors=True))
    return _SCRATCH


def gen_frame_case(r: random.Random, task: Optional[str] = None) -> Dict[str, Any]:
    task = task or r.choice(["detection", "detection", "tracking", "fp_validation"])
    merge = r.random() < 0.2
    pool = ["car", "bicycle", "pedestrian"] if merge else ["car", "truck", "bus", "bicycle", "motorbike", "pedestrian"]
    target = r.sample(pool, r.randint(1, len(pool)))
    if r.random() < 0.4:
        target.append("unknown")
    if task == "fp_validation" or r.random() < 0.35:
        target.append("false_positive")
    nl = len(target)
    frame_id = r.choice(["base_link", "map"])
    wide = r.choice([20.0, 50.0])
    cfg: Dict[str, Any] = {
        "evaluation_task": task,
        "target_labels": target,
        "label_prefix": "autoware",
        "merge_similar_labels": merge,
        "matching_label_policy": r.choice(["DEFAULT", "ALLOW_UNKNOWN", "ALLOW_ANY"]),
        "min_point_numbers": [0] * nl,
        "max_x_position": wide * 2,
        "max_y_position": wide * 2,
        "center_distance_thresholds": [round(r.uniform(0.5, 3.0), 2)],
        "plane_distance_thresholds": [round(r.uniform(0.5, 3.0), 2)],
        "iou_2d_thresholds": [round(r.uniform(0.1, 0.6), 2)],
        "iou_3d_thresholds": [round(r.uniform(0.1, 0.6), 2)],
    }
    if task == "fp_validation":
        for k_ in ("center_distance_thresholds", "plane_distance_thresholds", "iou_2d_thresholds", "iou_3d_thresholds"):
            cfg.pop(k_)
    crit_labels = r.sample(target, nl)
    kind = r.choice(["xy", "ring"])
    if kind == "xy":
        crit = {"target_labels": crit_labels, "max_x_position_list": [round(r.uniform(0.3, 1.0) * wide, 1) for _ in crit_labels], "max_y_position_list": [round(r.uniform(0.3, 1.0) * wide, 1) for _ in crit_labels]}
    else:
        crit = {"target_labels": crit_labels, "max_distance_list": [round(r.uniform(0.4, 1.0) * wide, 1) for _ in crit_labels], "min_distance_list": [round(r.choice([0.0, r.uniform(0.05, 0.3) * wide]), 1) for _ in crit_labels]}
    if r.random() < 0.25:
        crit["min_point_numbers"] = [r.choice([0, 1, 5]) for _ in crit_labels]
    if r.random() < 0.25:
        crit["confidence_threshold_list"] = [round(r.uniform(0, 0.5), 2) for _ in crit_labels]
    pf_labels = list(crit_labels)
    if "false_positive" not in pf_labels and r.random() < 0.3:
        pf_labels.append("false_positive")
    pf = {"target_labels": pf_labels, "matching_threshold_list": [round(r.choice([0.05, 0.5, 1.0, 2.0, 5.0, 50.0]) * r.uniform(0.8, 1.2), 3) for _ in pf_labels]}
    if r.random() < 0.3:
        pf["confidence_threshold_list"] = [round(r.uniform(0.2, 0.9), 2) for _ in pf_labels]

    ego_pos = (r.uniform(-1e4, 1e4), r.uniform(-1e4, 1e4), r.uniform(-3, 3)) if r.random() < 0.5 else (r.uniform(-50, 50), r.uniform(-50, 50), 0.0)
    ego_yaw = O.rand_yaw(r)

    def place(lab: str) -> Tuple[float, float]:
        """Position relative to the bound of the label: inside / just inside / just outside / far outside."""
        where = r.choice(["in", "in", "edge_in", "edge_out", "out"])
        i = crit_labels.index(lab) if lab in crit_labels else r.randrange(nl)
        eps = r.choice([1e-4, 1e-2, 0.5])
        if kind == "xy":
            bx, by = crit["max_x_position_list"][i], crit["max_y_position_list"][i]
            sx, sy = r.choice([-1, 1]), r.choice([-1, 1])
            if where == "in":
                return sx * r.uniform(0, 0.9) * bx, sy * r.uniform(0, 0.9) * by
            if where == "edge_in":
                return (sx * (bx - eps), sy * r.uniform(0, 0.9) * by) if r.random() < 0.5 else (sx * r.uniform(0, 0.9) * bx, sy * (by - eps))
            if where == "edge_out":
                return (sx * (bx + eps), sy * r.uniform(0, 0.9) * by) if r.random() < 0.5 else (sx * r.uniform(0, 0.9) * bx, sy * (by + eps))
            return sx * r.uniform(1.05, 1.8) * bx, sy * r.uniform(0, 1.8) * by
        mx, mn = crit["max_distance_list"][i], crit["min_distance_list"][i]
        ang = r.uniform(-math.pi, math.pi)
        if where == "in":
            d = r.uniform(mn + 0.05 * (mx - mn), mx - 0.05 * (mx - mn))
        elif where == "edge_in":
            d = mx - eps if (r.random() < 0.5 or mn == 0) else mn + eps
        elif where == "edge_out":
            d = mx + eps if (r.random() < 0.5 or mn == 0) else max(0.0, mn - eps)
        else:
            d = r.uniform(1.05, 1.8) * mx
        return d * math.cos(ang), d * math.sin(ang)

    gt_label_pool = [l for l in target if l != "unknown"] or ["car"]
    gts, ests = [], []
    n_gt = r.randint(0, 10)
    for k in range(n_gt):
        if task == "fp_validation" or r.random() < 0.2:
            lab = "false_positive"
        else:
            lab = r.choice(gt_label_pool + (["unknown"] if "unknown" in target else []))
            if lab == "false_positive":
                lab = "false_positive"
        x, y = place(lab if lab in crit_labels else crit_labels[0])
        gts.append(dict(key=f"g{k}", lab=lab, box=(x, y, r.uniform(-0.5, 0.5), O.rand_yaw(r), r.uniform(0.5, 2.5), r.uniform(0.5, 6.0), r.uniform(1, 3)), npts=r.choice([0, 1, 3, 10, 100])))
    est_names = [l for l in target if l != "false_positive"] + ["unknown"]
    for k, g in enumerate(gts):
        if r.random() < 0.8:
            b = g["box"]
            sig = r.choice([0.02, 0.3, 1.5])
            name = g["lab"] if (g["lab"] != "false_positive" and r.random() < 0.7) else r.choice(est_names)
            ests.append(dict(key=f"e{k}", name=name, box=(b[0] + r.gauss(0, sig), b[1] + r.gauss(0, sig), b[2], b[3] + r.gauss(0, 0.3), b[4], b[5], b[6]), score=round(r.uniform(0.05, 1.0), 4)))
    for k in range(r.choice([0, 1, 3])):
        name = r.choice(est_names)
        x, y = place(name if name in crit_labels else crit_labels[0])
        ests.append(dict(key=f"fa{k}", name=name, box=(x, y, 0.0, O.rand_yaw(r), 1.8, 4.2, 1.6), score=round(r.uniform(0.05, 1.0), 4)))
    seen = set()
    for e in ests:
        while e["score"] in seen:
            e["score"] = round(e["score"] - 1e-6, 6)  # strictly decreasing: terminates
        seen.add(e["score"])
    return dict(task=task, cfg=cfg, crit=crit, pf=pf, frame_id=frame_id, ego_pos=ego_pos, ego_yaw=ego_yaw, gts=gts, ests=ests, kind=kind, gt_ids=r.choice(["unique", "unique", "none", "shared"]) if task != "tracking" else "unique")


def build_frame(c: Dict[str, Any]):
    """Returns (frame_result (not yet evaluated), config, estimates, ground-truth frame)."""
    from perception_eval.common.dataset import FrameGroundTruth
    from perception_eval.config import PerceptionEvaluationConfig
    from perception_eval.evaluation.result.perception_frame_config import CriticalObjectFilterConfig, PerceptionPassFailConfig
    from perception_eval.evaluation.result.perception_frame_result import PerceptionFrameResult
    import perception_eval.manager.perception_evaluation_manager as mgr_mod

    config = PerceptionEvaluationConfig(dataset_paths=[], frame_id=c["frame_id"], result_root_directory=scratch_dir(), evaluation_config_dict=dict(c["cfg"]))
    conv = config.label_converter
    t = 1_000_000

    # hand-built ground truth often carries no uuid at all (the constructor default) or one id for a whole group
    gt_ids = c.get("gt_ids", "unique")

    def mk(d, is_gt):
        b = d["box"]
        uu = d["key"] if (not is_gt or gt_ids == "unique") else (None if gt_ids == "none" else "shared")
        o = O.obj3d(b[0], b[1], b[2], b[3], b[4], b[5], b[6], score=1.0 if is_gt else d["score"], uuid=uu, t=t, npts=d.get("npts"))
        o.semantic_label = conv.convert_label(d["lab"] if is_gt else d["name"])
        if c["frame_id"] == "map":
            o = O.to_map(o, c["ego_pos"], c["ego_yaw"])
        return o

    gts = [mk(g, True) for g in c["gts"]]
    ests = [mk(e, False) for e in c["ests"]]
    frame_gt = FrameGroundTruth(unix_time=t, frame_name="0", objects=gts, transforms=[O.ego2map(c["ego_pos"], c["ego_yaw"])])
    results = _lib_or().get_object_results(
        evaluation_task=config.evaluation_task,
        estimated_objects=ests,
        ground_truth_objects=gts,
        target_labels=config.target_labels,
        matching_label_policy=config.label_params["matching_label_policy"],
        transforms=frame_gt.transforms,
    )
    crit = CriticalObjectFilterConfig(evaluator_config=config, **c["crit"])
    pf = PerceptionPassFailConfig(evaluator_config=config, **c["pf"])
    fr = PerceptionFrameResult(
        object_results=results,
        frame_ground_truth=frame_gt,
        metrics_config=config.metrics_config,
        critical_object_filter_config=crit,
        frame_pass_fail_config=pf,
        unix_time=t,
        target_labels=config.target_labels,
    )
    return fr, config, ests, frame_gt


def run_direct_frames(ctx: Ctx, workload: str, n: int, after=None) -> None:
    for idx in ctx.indices(workload, n):
        r = ctx.rng(workload, idx)
        c = gen_frame_case(r)
        ctx.begin_case(workload, idx, task=c["task"], frame_id=c["frame_id"], kind=c["kind"], n_est=len(c["ests"]), n_gt=len(c["gts"]))
        ctx.count("direct_frames.cases")
        try:
            fr, config, ests, frame_gt = build_frame(c)
            fr.evaluate_frame()
            if after is not None:
                after(c, fr, config)
        except Exception as e:
            import traceback

            ctx.count("direct_frames.exceptions")
            ctx.notes.setdefault("frame_exception_samples", [])
            if len(ctx.notes["frame_exception_samples"]) < 3:
                ctx.notes["frame_exception_samples"].append(dict(task=c["task"], frame_id=c["frame_id"], error=f"{type(e).__name__}: {str(e)[:200]}", tb=traceback.format_exc(limit=5)[-600:]))


# ----------------------------------------------------------------------------------------
# 2D frames (detection2d / tracking2d / fp_validation2d): no range criteria, IoU2D pass/fail
# ----------------------------------------------------------------------------------------
def gen_frame_case_2d(r: random.Random) -> Dict[str, Any]:
    task = r.choice(["detection2d", "detection2d", "tracking2d", "fp_validation2d"])
    pool = ["car", "truck", "bus", "bicycle", "motorbike", "pedestrian"]
    target = r.sample(pool, r.randint(1, len(pool)))
    if r.random() < 0.4:
        target.append("unknown")
    if task == "fp_validation2d" or r.random() < 0.35:
        target.append("false_positive")
    cams = r.sample(["cam_front", "cam_back", "cam_front_left"], r.randint(1, 2))
    cfg: Dict[str, Any] = {
        "evaluation_task": task,
        "target_labels": target,
        "label_prefix": "autoware",
        "matching_label_policy": r.choice(["DEFAULT", "ALLOW_UNKNOWN", "ALLOW_ANY"]),
        "center_distance_thresholds": [round(r.uniform(5, 80), 1)],
        "iou_2d_thresholds": [round(r.uniform(0.1, 0.7), 2)],
    }
    if task == "fp_validation2d":
        cfg.pop("center_distance_thresholds")
        cfg.pop("iou_2d_thresholds")
    crit_labels = r.sample(target, len(target))
    crit: Dict[str, Any] = {"target_labels": crit_labels}
    if r.random() < 0.4:
        crit["confidence_threshold_list"] = [round(r.uniform(0, 0.5), 2) for _ in crit_labels]
    pf_labels = list(crit_labels)
    if "false_positive" not in pf_labels and r.random() < 0.3:
        pf_labels.append("false_positive")
    pf = {"target_labels": pf_labels, "matching_threshold_list": [round(r.choice([0.05, 0.3, 0.5, 0.8]), 2) for _ in pf_labels]}
    if r.random() < 0.3:
        pf["confidence_threshold_list"] = [round(r.uniform(0.2, 0.9), 2) for _ in pf_labels]
    gts, ests = [], []
    gt_pool = [l for l in target if l != "unknown"] or ["car"]
    for k in range(r.randint(0, 10)):
        lab = "false_positive" if (task == "fp_validation2d" or r.random() < 0.2) else r.choice(gt_pool + (["unknown"] if "unknown" in target else []))
        gts.append(dict(key=f"g{k}", lab=lab, roi=(r.randint(0, 1500), r.randint(0, 900), r.randint(5, 300), r.randint(5, 300)), cam=r.choice(cams)))
    est_names = [l for l in target if l != "false_positive"] + ["unknown"]
    for k, g in enumerate(gts):
        if r.random() < 0.8:
            x, y, w, h = g["roi"]
            d = r.choice([0, 2, 10, 60])
            roi = (max(0, x + r.randint(-d, d)), max(0, y + r.randint(-d, d)), max(1, w + r.randint(-d, d)), max(1, h + r.randint(-d, d)))
            name = g["lab"] if (g["lab"] != "false_positive" and r.random() < 0.7) else r.choice(est_names)
            ests.append(dict(key=f"e{k}", name=name, roi=roi, cam=g["cam"] if r.random() < 0.9 else r.choice(cams), score=round(r.uniform(0.05, 1.0), 4)))
    for k in range(r.choice([0, 1, 3])):
        ests.append(dict(key=f"fa{k}", name=r.choice(est_names), roi=(r.randint(0, 1500), r.randint(0, 900), r.randint(5, 300), r.randint(5, 300)), cam=r.choice(cams), score=round(r.uniform(0.05, 1.0), 4)))
    seen = set()
    for e in ests:
        while e["score"] in seen:
            e["score"] = round(e["score"] - 1e-6, 6)  # strictly decreasing: terminates
        seen.add(e["score"])
    return dict(task=task, cfg=cfg, crit=crit, pf=pf, frame_id=cams, gts=gts, ests=ests, kind="2d")


def build_frame_2d(c: Dict[str, Any]):
    from perception_eval.common.dataset import FrameGroundTruth
    from perception_eval.common.schema import FrameID
    from perception_eval.config import PerceptionEvaluationConfig
    from perception_eval.evaluation.result.perception_frame_config import CriticalObjectFilterConfig, PerceptionPassFailConfig
    from perception_eval.evaluation.result.perception_frame_result import PerceptionFrameResult
    import perception_eval.manager.perception_evaluation_manager as mgr_mod

    config = PerceptionEvaluationConfig(dataset_paths=[], frame_id=c["frame_id"], result_root_directory=scratch_dir(), evaluation_config_dict=dict(c["cfg"]))
    conv = config.label_converter
    t = 1_000_000

    def mk(d, is_gt):
        o = O.obj2d(d["roi"], "car", score=1.0 if is_gt else d["score"], uuid=d["key"], frame=FrameID.from_value(d["cam"]), t=t)
        o.semantic_label = conv.convert_label(d["lab"] if is_gt else d["name"])
        return o

    gts = [mk(g, True) for g in c["gts"]]
    ests = [mk(e, False) for e in c["ests"]]
    gts = _lib_of().filter_objects(gts, True, **{k: v for k, v in config.filtering_params.items() if k in ("target_labels",)})
    ests = _lib_of().filter_objects(ests, False, **{k: v for k, v in config.filtering_params.items() if k in ("target_labels",)})
    frame_gt = FrameGroundTruth(unix_time=t, frame_name="0", objects=gts)
    results = _lib_or().get_object_results(
        evaluation_task=config.evaluation_task,
        estimated_objects=ests,
        ground_truth_objects=gts,
        target_labels=config.target_labels,
        matching_label_policy=config.label_params["matching_label_policy"],
    )
    crit = CriticalObjectFilterConfig(evaluator_config=config, **c["crit"])
    pf = PerceptionPassFailConfig(evaluator_config=config, **c["pf"])
    fr = PerceptionFrameResult(object_results=results, frame_ground_truth=frame_gt, metrics_config=config.metrics_config, critical_object_filter_config=crit, frame_pass_fail_config=pf, unix_time=t, target_labels=config.target_labels)
    return fr, config, ests, frame_gt


def run_direct_frames_2d(ctx: Ctx, workload: str, n: int, after=None) -> None:
    for idx in ctx.indices(workload, n):
        r = ctx.rng(workload, idx)
        c = gen_frame_case_2d(r)
        ctx.begin_case(workload, idx, task=c["task"], frame_id=c["frame_id"], kind="2d", n_est=len(c["ests"]), n_gt=len(c["gts"]))
        ctx.count("direct_frames.cases")
        try:
            fr, config, ests, frame_gt = build_frame_2d(c)
            fr.evaluate_frame()
            if after is not None:
                after(c, fr, config)
        except Exception as e:
            import traceback

            ctx.count("direct_frames.exceptions")
            ctx.notes.setdefault("frame_exception_samples", [])
            if len(ctx.notes["frame_exception_samples"]) < 3:
                ctx.notes["frame_exception_samples"].append(dict(task=c["task"], frame_id=c["frame_id"], error=f"{type(e).__name__}: {str(e)[:200]}", tb=traceback.format_exc(limit=5)[-600:]))
