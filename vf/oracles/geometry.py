"""Independent geometric reference models (no shapely, no pyquaternion, no library calls).

Quaternions are (w, x, y, z) tuples. Boxes are (cx, cy, cz, yaw, width, length, height) with the
library's convention: ``length`` along the body x-axis, ``width`` along the body y-axis.
"""
from __future__ import annotations

import math
from typing import List, Optional, Sequence, Tuple

import numpy as np

Vec = Tuple[float, float]


# ----------------------------------------------------------------------------------------
# rotations
# ----------------------------------------------------------------------------------------
def quat_from_yaw(yaw: float) -> Tuple[float, float, float, float]:
    return (math.cos(yaw / 2.0), 0.0, 0.0, math.sin(yaw / 2.0))


def quat_from_axis_angle(axis: Sequence[float], angle: float) -> Tuple[float, float, float, float]:
    ax = np.asarray(axis, dtype=float)
    ax = ax / np.linalg.norm(ax)
    s = math.sin(angle / 2.0)
    return (math.cos(angle / 2.0), ax[0] * s, ax[1] * s, ax[2] * s)


def quat_mul(a, b):
    aw, ax, ay, az = a
    bw, bx, by, bz = b
    return (
        aw * bw - ax * bx - ay * by - az * bz,
        aw * bx + ax * bw + ay * bz - az * by,
        aw * by - ax * bz + ay * bw + az * bx,
        aw * bz + ax * by - ay * bx + az * bw,
    )


def quat_conj(q):
    return (q[0], -q[1], -q[2], -q[3])


def quat_to_matrix(q) -> np.ndarray:
    w, x, y, z = (float(v) for v in q)
    n = math.sqrt(w * w + x * x + y * y + z * z)
    w, x, y, z = w / n, x / n, y / n, z / n
    return np.array(
        [
            [1 - 2 * (y * y + z * z), 2 * (x * y - z * w), 2 * (x * z + y * w)],
            [2 * (x * y + z * w), 1 - 2 * (x * x + z * z), 2 * (y * z - x * w)],
            [2 * (x * z - y * w), 2 * (y * z + x * w), 1 - 2 * (x * x + y * y)],
        ]
    )


def yaw_of_quat(q) -> float:
    """Yaw (rotation about z, ZYX convention) of a quaternion, from its rotation matrix."""
    m = quat_to_matrix(q)
    return math.atan2(m[1, 0], m[0, 0])


def yaw_of_matrix(m: np.ndarray) -> float:
    return math.atan2(m[1, 0], m[0, 0])


def wrap_pi(a: float) -> float:
    """Wrap to (-pi, pi]."""
    a = math.fmod(a, 2 * math.pi)
    if a > math.pi:
        a -= 2 * math.pi
    elif a <= -math.pi:
        a += 2 * math.pi
    return a


def yaw_diff_abs(y1: float, y2: float) -> float:
    """Minimal absolute yaw difference in [0, pi]."""
    return abs(wrap_pi(y1 - y2))


def same_rotation(q1, q2, tol: float = 1e-7) -> bool:
    return float(np.abs(quat_to_matrix(q1) - quat_to_matrix(q2)).max()) <= tol


def homogeneous(position: Sequence[float], q) -> np.ndarray:
    m = np.eye(4)
    m[:3, :3] = quat_to_matrix(q)
    m[:3, 3] = np.asarray(position, dtype=float)
    return m


def inv_rigid(m: np.ndarray) -> np.ndarray:
    r = m[:3, :3]
    t = m[:3, 3]
    out = np.eye(4)
    out[:3, :3] = r.T
    out[:3, 3] = -r.T @ t
    return out


def slerp(q0, q1, t: float):
    """Shortest-arc slerp, own implementation."""
    a = np.asarray(q0, dtype=float)
    b = np.asarray(q1, dtype=float)
    a = a / np.linalg.norm(a)
    b = b / np.linalg.norm(b)
    d = float(np.dot(a, b))
    if d < 0:
        b = -b
        d = -d
    if d > 1 - 1e-12:
        r = a + t * (b - a)
        return tuple(r / np.linalg.norm(r))
    th = math.acos(min(1.0, d))
    r = (math.sin((1 - t) * th) * a + math.sin(t * th) * b) / math.sin(th)
    return tuple(r)


# ----------------------------------------------------------------------------------------
# boxes
# ----------------------------------------------------------------------------------------
def box_corners(cx: float, cy: float, yaw: float, width: float, length: float, scale: float = 1.0) -> List[Vec]:
    """Footprint corners in the library's order: (+l,+w), (-l,+w), (-l,-w), (+l,-w) halves, CCW."""
    c, s = math.cos(yaw), math.sin(yaw)
    out = []
    for dx, dy in ((length, width), (-length, width), (-length, -width), (length, -width)):
        x = dx / 2.0 * scale
        y = dy / 2.0 * scale
        out.append((cx + c * x - s * y, cy + s * x + c * y))
    return out


def polygon_area(poly: Sequence[Vec]) -> float:
    a = 0.0
    n = len(poly)
    for i in range(n):
        x1, y1 = poly[i]
        x2, y2 = poly[(i + 1) % n]
        a += x1 * y2 - x2 * y1
    return a / 2.0


def clip_convex(subject: Sequence[Vec], clip: Sequence[Vec]) -> List[Vec]:
    """Sutherland-Hodgman; both polygons convex and counter-clockwise."""
    out = list(subject)
    n = len(clip)
    for i in range(n):
        if not out:
            break
        ax, ay = clip[i]
        bx, by = clip[(i + 1) % n]
        inp = out
        out = []

        def side(p):
            return (bx - ax) * (p[1] - ay) - (by - ay) * (p[0] - ax)

        for j in range(len(inp)):
            p = inp[j]
            q = inp[(j + 1) % len(inp)]
            sp, sq = side(p), side(q)
            if sp >= 0:
                out.append(p)
                if sq < 0:
                    t = sp / (sp - sq)
                    out.append((p[0] + t * (q[0] - p[0]), p[1] + t * (q[1] - p[1])))
            elif sq >= 0:
                t = sp / (sp - sq)
                out.append((p[0] + t * (q[0] - p[0]), p[1] + t * (q[1] - p[1])))
    return out


def intersection_area(p1: Sequence[Vec], p2: Sequence[Vec]) -> float:
    a = list(p1) if polygon_area(p1) >= 0 else list(reversed(p1))
    b = list(p2) if polygon_area(p2) >= 0 else list(reversed(p2))
    inter = clip_convex(a, b)
    if len(inter) < 3:
        return 0.0
    return abs(polygon_area(inter))


def _local_footprints(b1, b2):
    """Footprints of both boxes in coordinates centred on the first box (IoU is translation invariant; clipping far from
    the origin would lose ~1e-16 * |coordinate| * size of absolute area, i.e. ~1e-8 of a small box at 1e4 m)."""
    p1 = box_corners(0.0, 0.0, b1[3], b1[4], b1[5])
    p2 = box_corners(b2[0] - b1[0], b2[1] - b1[1], b2[3], b2[4], b2[5])
    return p1, p2


def iou_bev(b1, b2) -> float:
    """b = (cx, cy, cz, yaw, w, l, h)."""
    p1, p2 = _local_footprints(b1, b2)
    inter = intersection_area(p1, p2)
    a1 = b1[4] * b1[5]
    a2 = b2[4] * b2[5]
    return inter / (a1 + a2 - inter)


def iou_3d(b1, b2) -> float:
    p1, p2 = _local_footprints(b1, b2)
    inter = intersection_area(p1, p2)
    zmin = max(b1[2] - b1[6] / 2, b2[2] - b2[6] / 2)
    zmax = min(b1[2] + b1[6] / 2, b2[2] + b2[6] / 2)
    h = max(0.0, zmax - zmin)
    vi = inter * h
    v1 = b1[4] * b1[5] * b1[6]
    v2 = b2[4] * b2[5] * b2[6]
    return vi / (v1 + v2 - vi)


def collinear_edges(p1: Sequence[Vec], p2: Sequence[Vec], eps_rel: float = 1e-9) -> bool:
    """True iff some edge of p1 and some edge of p2 lie on one line within eps_rel * (1 + extent) - the input class on
    which the GEOS overlay behind the library's IoU is known to lose the whole intersection (known finding D16)."""
    ext = 1.0 + max(max(abs(x), abs(y)) for x, y in list(p1) + list(p2))
    eps = eps_rel * ext
    for i in range(len(p1)):
        a, b = p1[i], p1[(i + 1) % len(p1)]
        for j in range(len(p2)):
            c, d = p2[j], p2[(j + 1) % len(p2)]
            ux, uy = d[0] - c[0], d[1] - c[1]
            n = math.hypot(ux, uy)
            if n == 0.0:
                continue
            da = abs(ux * (a[1] - c[1]) - uy * (a[0] - c[0])) / n
            db = abs(ux * (b[1] - c[1]) - uy * (b[0] - c[0])) / n
            if da <= eps and db <= eps:
                return True
    return False


def boxes_collinear(b1, b2) -> bool:
    return collinear_edges(box_corners(b1[0], b1[1], b1[3], b1[4], b1[5]), box_corners(b2[0], b2[1], b2[3], b2[4], b2[5]))


def center_distance(b1, b2) -> float:
    return math.sqrt((b1[0] - b2[0]) ** 2 + (b1[1] - b2[1]) ** 2 + (b1[2] - b2[2]) ** 2)


def plane_distance(est, gt, ego_T_frame: Optional[np.ndarray] = None) -> Tuple[float, float]:
    """RMS distance between the corresponding footprint corners of the GT's nearest-to-ego side.

    ``ego_T_frame`` maps the objects' frame to the ego frame (None: objects are in the ego frame).
    Returns (distance, ambiguity margin = d3 - d2 of the sorted GT corner distances to the ego); a
    small margin means the nearest side is numerically ambiguous.
    """
    gc = box_corners(gt[0], gt[1], gt[3], gt[4], gt[5])
    ec = box_corners(est[0], est[1], est[3], est[4], est[5])
    dists = []
    for x, y in gc:
        if ego_T_frame is not None:
            p = ego_T_frame @ np.array([x, y, 0.0, 1.0])
            dists.append(math.hypot(p[0], p[1]))
        else:
            dists.append(math.hypot(x, y))
    order = sorted(range(4), key=lambda i: dists[i])
    i, j = order[0], order[1]
    margin = dists[order[2]] - dists[order[1]]
    d1 = math.hypot(gc[i][0] - ec[i][0], gc[i][1] - ec[i][1])
    d2 = math.hypot(gc[j][0] - ec[j][0], gc[j][1] - ec[j][1])
    return math.sqrt(0.5 * (d1 * d1 + d2 * d2)), margin


def point_in_box(p: Sequence[float], box, scale: float = 1.0) -> Tuple[bool, float]:
    """Analytic box-frame test. Returns (inside, margin) where margin is the distance to the nearest
    face relative decision (min over the three axes of |coordinate - half extent|)."""
    cx, cy, cz, yaw, w, l, h = box
    dx, dy = p[0] - cx, p[1] - cy
    c, s = math.cos(yaw), math.sin(yaw)
    bx = c * dx + s * dy
    by = -s * dx + c * dy
    hx, hy = l * scale / 2.0, w * scale / 2.0
    m = min(abs(abs(bx) - hx), abs(abs(by) - hy))
    inside = abs(bx) < hx and abs(by) < hy
    if len(p) > 2:
        bz = p[2] - cz
        hz = h / 2.0
        m = min(m, abs(abs(bz) - hz))
        inside = inside and abs(bz) <= hz
    return inside, m


def point_in_polygon(px: float, py: float, poly: Sequence[Vec]) -> bool:
    """Even-odd ray casting (a different algorithm from the library's winding number)."""
    inside = False
    n = len(poly)
    j = n - 1
    for i in range(n):
        xi, yi = poly[i][0], poly[i][1]
        xj, yj = poly[j][0], poly[j][1]
        if (yi > py) != (yj > py):
            xint = (xj - xi) * (py - yi) / (yj - yi) + xi
            if px < xint:
                inside = not inside
        j = i
    return inside


def dist_point_to_polygon_edges(px: float, py: float, poly: Sequence[Vec]) -> float:
    best = float("inf")
    n = len(poly)
    for i in range(n):
        ax, ay = poly[i][0], poly[i][1]
        bx, by = poly[(i + 1) % n][0], poly[(i + 1) % n][1]
        vx, vy = bx - ax, by - ay
        L2 = vx * vx + vy * vy
        t = 0.0 if L2 == 0 else max(0.0, min(1.0, ((px - ax) * vx + (py - ay) * vy) / L2))
        qx, qy = ax + t * vx, ay + t * vy
        best = min(best, math.hypot(px - qx, py - qy))
    return best
