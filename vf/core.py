"""Monitoring core: context (counters, signatures, violations), taps and case RNGs."""
from __future__ import annotations

from collections import Counter
import hashlib
import inspect
import json
import os
import random
import sys
import time
import traceback
from typing import Any, Callable, Dict, List, Optional

import numpy as np

ATOL = 1e-9
RTOL = 1e-7
BOUNDARY = 1e-6


class MonitorError(Exception):
    """Raised by icontract-style conditions installed by the harness."""


def close(a: float, b: float, atol: float = ATOL, rtol: float = RTOL) -> bool:
    if a is None or b is None:
        return a is b
    if isinstance(a, float) and isinstance(b, float) and (np.isinf(a) or np.isinf(b)):
        return a == b
    return abs(a - b) <= atol + rtol * max(abs(a), abs(b))


def stable_int(*parts: Any) -> int:
    h = hashlib.sha256("|".join(str(p) for p in parts).encode()).digest()
    return int.from_bytes(h[:8], "big")


def case_rng(seed: int, workload: str, index: int) -> random.Random:
    return random.Random(stable_int(seed, workload, index))


def jsonable(x: Any, depth: int = 0) -> Any:
    """Best-effort conversion of library objects to JSON for samples / replays."""
    if depth > 6:
        return repr(x)[:200]
    if x is None or isinstance(x, (bool, int, str)):
        return x
    if isinstance(x, float):
        if np.isnan(x):
            return "nan"
        if np.isinf(x):
            return "inf" if x > 0 else "-inf"
        return x
    if isinstance(x, (np.integer,)):
        return int(x)
    if isinstance(x, (np.floating,)):
        return jsonable(float(x))
    if isinstance(x, np.ndarray):
        return jsonable(x.tolist(), depth + 1)
    if isinstance(x, dict):
        return {str(k): jsonable(v, depth + 1) for k, v in x.items()}
    if isinstance(x, (list, tuple, set, frozenset)):
        return [jsonable(v, depth + 1) for v in x]
    if hasattr(x, "value") and hasattr(x, "name") and x.__class__.__module__.startswith("perception_eval"):
        return str(getattr(x, "value"))
    return repr(x)[:300]


class Ctx:
    """Everything one check run observes. Merged across shards by the driver."""

    def __init__(self, prop: str, tier: str, seed: int, shard: int = 0, nshards: int = 1, replay_case: Optional[dict] = None):
        self.prop = prop
        self.tier = tier
        self.seed = seed
        self.shard = shard
        self.nshards = nshards
        self.replay_case = replay_case
        self.counters: Counter = Counter()
        self.sigs: Counter = Counter()  # signature -> count, non-trivial cases only
        self.trivial = 0
        self.evaluations = 0
        self.samples: List[Any] = []
        self.violations: List[dict] = []
        self.notes: Dict[str, Any] = {}
        self.exhaustive: Dict[str, bool] = {}
        self.inconclusive: List[str] = []
        self.t0 = time.time()
        self.deadline: Optional[float] = None
        self._viol_keys: set = set()
        self.current_case: Optional[dict] = None

    # ---- workload helpers -------------------------------------------------------------
    @property
    def quick(self) -> bool:
        return self.tier == "quick"

    def mine(self, index: int) -> bool:
        """Shard filter for enumerated / indexed cases."""
        if self.replay_case is not None:
            return True
        return index % self.nshards == self.shard

    def indices(self, workload: str, n: int):
        """Indices of this shard for a workload of n cases (or the replayed one only)."""
        if self.replay_case is not None:
            if self.replay_case.get("workload") == workload:
                yield int(self.replay_case["index"])
            return
        for i in range(self.shard, n, self.nshards):
            if self.deadline is not None and time.time() > self.deadline:
                self.inconclusive.append(f"watchdog:{workload}@{i}/{n}")
                return
            yield i

    def rng(self, workload: str, index: int) -> random.Random:
        seed = self.replay_case["seed"] if self.replay_case is not None and "seed" in self.replay_case else self.seed
        return case_rng(seed, workload, index)

    def begin_case(self, workload: str, index: int, **info: Any) -> None:
        self.current_case = {"workload": workload, "index": index, "seed": self.seed, **info}
        self.evaluations += 1

    def case(self, sig: Any, nontrivial: bool = True, sample: Any = None) -> None:
        """Record the abstract signature of a finished case."""
        if nontrivial:
            key = sig if isinstance(sig, str) else json.dumps(jsonable(sig), sort_keys=True)
            self.sigs[key] += 1
        else:
            self.trivial += 1
        if sample is not None and len(self.samples) < 4 and (nontrivial or not self.samples):
            self.samples.append(jsonable(sample))

    def case_guard(self, workload: str, library_must_not_raise: Optional[str] = None):
        """Context manager: an exception escaping one workload case is recorded (case_exceptions) and the workload goes on.

        ``library_must_not_raise``: mechanism to report when the exception was raised while library code was running
        (some traceback frame inside the perception_eval package). Only for workloads whose every input is valid by
        construction and whose property promises a value ("returns ..."), so that raising is itself the refutation."""
        ctx = self

        class _G:
            def __enter__(self_g):
                return self_g

            def __exit__(self_g, et, ev, tb):
                if et is None or not issubclass(et, Exception):
                    return False
                if library_must_not_raise is not None:
                    import traceback as _tb

                    files = [f.filename for f in _tb.extract_tb(tb)]
                    if any("/perception_eval/" in f and "/verif/" not in f for f in files):
                        where = [f"{os.path.basename(f.filename)}:{f.name}" for f in _tb.extract_tb(tb) if "/perception_eval/" in f.filename][-1]
                        ctx.violation(f"{library_must_not_raise}:{et.__name__}", dict(error=str(ev)[:200], raised_in=where), tap=workload)
                        return True
                ctx.counters[f"{workload}.case_exceptions"] += 1
                lst = ctx.notes.setdefault("case_exception_samples", [])
                if len(lst) < 3:
                    lst.append(f"{workload}: {et.__name__}: {str(ev)[:200]}")
                return True

        return _G()

    def count(self, key: str, n: int = 1) -> None:
        self.counters[key] += n

    # ---- verdicts -------------------------------------------------------------------
    def violation(self, mechanism: str, detail: Any = None, case: Any = None, tap: str = "") -> None:
        """Record a violation. ``mechanism`` is the deterministic class used by known_findings.json."""
        self.counters[f"violations.{mechanism}"] += 1
        if tap:
            self.counters[f"{tap}.violations"] += 1
        if mechanism in self._viol_keys and len(self.violations) > 40:
            return
        self._viol_keys.add(mechanism)
        if sum(1 for v in self.violations if v["mechanism"] == mechanism) >= 3:
            return
        self.violations.append(
            {
                "mechanism": mechanism,
                "tap": tap,
                "detail": jsonable(detail),
                "case": jsonable(case if case is not None else self.current_case),
                "replay": jsonable(self.current_case),
            }
        )

    def check(self, ok: bool, mechanism: str, detail: Any = None, tap: str = "") -> bool:
        if tap:
            self.counters[f"{tap}.checked"] += 1
        if not ok:
            self.violation(mechanism, detail, tap=tap)
        return bool(ok)

    # ---- (de)serialisation for shards -------------------------------------------------
    def dump(self) -> dict:
        return {
            "counters": dict(self.counters),
            "sigs": dict(self.sigs),
            "trivial": self.trivial,
            "evaluations": self.evaluations,
            "samples": self.samples,
            "violations": self.violations,
            "notes": jsonable(self.notes),
            "exhaustive": self.exhaustive,
            "inconclusive": self.inconclusive,
        }

    def absorb(self, d: dict) -> None:
        self.counters.update(d["counters"])
        self.sigs.update(d["sigs"])
        self.trivial += d["trivial"]
        self.evaluations += d["evaluations"]
        for s in d["samples"]:
            if len(self.samples) < 4:
                self.samples.append(s)
        self.violations.extend(d["violations"])
        for k, v in d.get("notes", {}).items():
            if isinstance(v, (int, float)) and not isinstance(v, bool) and isinstance(self.notes.get(k, 0), (int, float)):
                self.notes[k] = self.notes.get(k, 0) + v
            else:
                self.notes.setdefault(k, v)
        for k, v in d["exhaustive"].items():
            self.exhaustive[k] = self.exhaustive.get(k, True) and v
        self.inconclusive.extend(d["inconclusive"])


# =========================================================================================
# Taps
# =========================================================================================


class Taps:
    """Install / uninstall wrappers on the real functions and methods.

    ``fn(module, name, factory)`` replaces ``module.name`` with ``factory(orig)`` and re-binds every
    alias (``from m import f``) in all loaded ``perception_eval.*`` modules. ``method(cls, name,
    factory)`` patches the class attribute so every instance and every caller is observed.
    """

    def __init__(self, ctx: Ctx):
        self.ctx = ctx
        self._undo: List[Callable[[], None]] = []
        self.missing: List[str] = []
        self.installed: List[str] = []

    def _adapt(self, orig: Callable, wrapped: Callable, where: str, tapname: str) -> Optional[Callable]:
        """A wrapper that spells out the tapped function's parameters must not turn another *call form* into an error of
        its own: calls are bound with the tapped function's own signature (its defaults applied) and handed to the wrapper
        in canonical form; a call the function itself would reject goes to the function untouched. A tapped function whose
        parameter list no longer has the shape the wrapper was written for is not tapped at all (reported as missing: the
        run is then inconclusive for the counters that tap decides, never an alarm)."""
        try:
            so, sw = inspect.signature(orig), inspect.signature(wrapped)
        except (TypeError, ValueError):
            return wrapped
        P = inspect.Parameter
        POS = (P.POSITIONAL_ONLY, P.POSITIONAL_OR_KEYWORD)
        w_pos = [p.name for p in sw.parameters.values() if p.kind in POS]
        w_kwonly = sorted(p.name for p in sw.parameters.values() if p.kind == P.KEYWORD_ONLY)
        w_varpos = any(p.kind == P.VAR_POSITIONAL for p in sw.parameters.values())
        w_varkw = any(p.kind == P.VAR_KEYWORD for p in sw.parameters.values())
        o_pos = [p.name for p in so.parameters.values() if p.kind in POS]
        o_kwonly = sorted(p.name for p in so.parameters.values() if p.kind == P.KEYWORD_ONLY)
        o_var = any(p.kind in (P.VAR_POSITIONAL, P.VAR_KEYWORD) for p in so.parameters.values())
        if not w_pos and w_varpos:
            return wrapped  # (*args, **kwargs): passes the call through as it came
        # the parameters the wrapper names must be the tapped function's leading parameters, by name and in order
        same_lead = o_pos[: len(w_pos)] == w_pos
        complete = (len(o_pos) == len(w_pos) and o_kwonly == w_kwonly) or w_varkw
        if o_var and same_lead and w_varpos and w_varkw:
            return wrapped  # both take open argument lists: nothing to normalise, the wrapper forwards what it gets
        if o_var or not same_lead or not complete:
            self.missing.append(f"{where}: parameter list changed {so} (tap written for {sw})")
            self.ctx.count(f"{tapname}.missing")
            return None
        n_lead = len(w_pos)

        def outer(*args: Any, **kwargs: Any) -> Any:
            try:
                b = so.bind(*args, **kwargs)
            except TypeError:
                return orig(*args, **kwargs)
            b.apply_defaults()
            items = list(b.arguments.items())
            return wrapped(*[v for _, v in items[:n_lead]], **{k: v for k, v in items[n_lead:]})

        outer.__name__ = getattr(orig, "__name__", "tap")
        outer.__doc__ = getattr(orig, "__doc__", None)
        return outer

    def fn(self, module: Any, name: str, factory: Callable[[Callable], Callable], tapname: Optional[str] = None) -> None:
        tapname = tapname or name
        orig = getattr(module, name, None)
        if orig is None:
            self.missing.append(f"{module.__name__}.{name}")
            self.ctx.count(f"{tapname}.missing")
            return
        wrapped = self._adapt(orig, factory(orig), f"{module.__name__}.{name}", tapname)
        if wrapped is None:
            return
        wrapped.__wrapped__ = orig  # type: ignore[attr-defined]
        n_alias = 0
        for modname, mod in list(sys.modules.items()):
            if mod is None or not (modname == "perception_eval" or modname.startswith("perception_eval.")):
                continue
            for attr, val in list(vars(mod).items()):
                if val is orig:
                    setattr(mod, attr, wrapped)
                    n_alias += 1
                    self._undo.append(lambda m=mod, a=attr, o=orig: setattr(m, a, o))
        self.installed.append(f"{module.__name__}.{name}[{n_alias} bindings]")

    def method(self, cls: Any, name: str, factory: Callable[[Callable], Callable], tapname: Optional[str] = None) -> None:
        tapname = tapname or f"{cls.__name__}.{name}"
        # private names are mangled
        attr = name
        if name.startswith("__") and not name.endswith("__"):
            attr = f"_{cls.__name__}{name}"
        raw = cls.__dict__.get(attr)
        if raw is None:
            self.missing.append(f"{cls.__name__}.{name}")
            self.ctx.count(f"{tapname}.missing")
            return
        is_static = isinstance(raw, staticmethod)
        is_class = isinstance(raw, classmethod)
        orig = raw.__func__ if (is_static or is_class) else raw
        wrapped = self._adapt(orig, factory(orig), f"{cls.__name__}.{name}", tapname)
        if wrapped is None:
            return
        wrapped.__wrapped__ = orig  # type: ignore[attr-defined]
        new = staticmethod(wrapped) if is_static else classmethod(wrapped) if is_class else wrapped
        setattr(cls, attr, new)
        self._undo.append(lambda c=cls, a=attr, r=raw: setattr(c, a, r))
        self.installed.append(f"{cls.__name__}.{name}")

    def uninstall(self) -> None:
        if self.missing:
            self.ctx.notes["taps_missing"] = list(self.missing)
        for u in reversed(self._undo):
            try:
                u()
            except Exception:
                pass
        self._undo.clear()

    def __enter__(self) -> "Taps":
        return self

    def __exit__(self, *exc: Any) -> None:
        self.uninstall()


def guarded(ctx: Ctx, tap: str, fn: Callable[[], None]) -> None:
    """Run an oracle; an exception inside the oracle itself is an inconclusive monitor, not a violation."""
    try:
        fn()
    except MonitorError:
        raise
    except Exception as e:  # oracle bug: never folded into held/violated
        ctx.count(f"{tap}.oracle_errors")
        if len(ctx.inconclusive) < 5:
            ctx.inconclusive.append(f"oracle_error:{tap}:{type(e).__name__}:{str(e)[:200]}:{traceback.format_exc(limit=3)[-400:]}")
