"""Process bootstrap: make the checks run the library from the current working tree.

* ``VERIF_REPO`` (default ``/repo``) selects the tree; ``<tree>/perception_eval`` is put first on
  ``sys.path`` so that an edit to any source file is what the next check executes (no build step).
* ``/verif/.deps`` holds icontract, installed offline by ``setup.sh``; if it is missing (fresh
  restore: git-ignored directories are absent) it is installed on the fly.
* noisy library logging / warnings are silenced (they are not evidence).
"""
from __future__ import annotations

import logging
import os
import subprocess
import sys
import warnings

VERIF_ROOT = os.path.dirname(os.path.dirname(os.path.abspath(__file__)))
REPO = os.environ.get("VERIF_REPO", "/repo")
DEPS = os.path.join(VERIF_ROOT, ".deps")
WHEELS = "/opt/veriftools/wheels"


def ensure_deps() -> bool:
    """Install icontract into /verif/.deps if it cannot be imported. Returns availability."""
    if DEPS not in sys.path:
        sys.path.insert(1, DEPS)
    try:
        import icontract  # noqa: F401

        return True
    except Exception:
        pass
    try:
        subprocess.run(
            [sys.executable, "-m", "pip", "install", "-q", "--no-index", "--find-links", WHEELS, "--target", DEPS, "icontract"],
            check=True,
            stdout=subprocess.DEVNULL,
            stderr=subprocess.DEVNULL,
            timeout=300,
        )
        import importlib

        importlib.invalidate_caches()
        import icontract  # noqa: F401

        return True
    except Exception:
        return False


def setup() -> None:
    pkg_root = os.path.join(REPO, "perception_eval")
    if not os.path.isdir(os.path.join(pkg_root, "perception_eval")):
        raise SystemExit(f"INCONCLUSIVE reason=repo_not_found path={pkg_root}")
    # the working tree wins over whatever is path-installed in the venv
    sys.path[:] = [p for p in sys.path if os.path.abspath(p or ".") != os.path.abspath(pkg_root)]
    sys.path.insert(0, pkg_root)
    if VERIF_ROOT not in sys.path:
        sys.path.insert(1, VERIF_ROOT)
    os.environ.setdefault("MPLBACKEND", "Agg")
    warnings.filterwarnings("ignore")
    logging.disable(logging.CRITICAL)
    import perception_eval  # noqa: F401

    loaded = os.path.abspath(os.path.dirname(os.path.dirname(perception_eval.__file__)))
    if loaded != os.path.abspath(pkg_root):
        raise SystemExit(f"INCONCLUSIVE reason=wrong_tree_loaded loaded={loaded} wanted={pkg_root}")
    logging.disable(logging.CRITICAL)


def git_head(path: str = REPO) -> str:
    try:
        return subprocess.run(["git", "-C", path, "rev-parse", "HEAD"], capture_output=True, text=True, timeout=10).stdout.strip()
    except Exception:
        return "unknown"
