"""C13 - scene scores pool the frame results; frame evaluation is history-independent."""
from __future__ import annotations

import math
import os
import sys
import numpy as np
from typing import Any, Dict, List, Optional, Tuple

from perception_eval.evaluation.metrics.detection.tp_metrics import TPMetricsAph
from perception_eval.manager import perception_evaluation_manager as mgr_mod

from .. import apmodel, compare
from ..core import Ctx, Taps, close, guarded
from ..gen import dataset as D
from ..gen import objects as O
from ..scenario import Run, gen_scenario

LEVEL_TEXT = (
    "Held on every manager call sequence executed under the monitor: add_frame_result and get_scene_result are tapped; at "
    "every quiescent point the checker snapshots (identity and order) the caller's estimate list and the objects of every "
    "loaded ground-truth frame and compares them after the call; each get_scene_result is recomputed by the oracle from the "
    "pooled frame_results (reference AP model, summed ground-truth counts); one-frame scenes are compared with the frame's own "
    "score, permuted frame orders with each other, and a probe evaluation is repeated on a fresh manager and on managers that "
    "first executed random call prefixes (other frames, the same frame with wider / narrower / equal critical filters, "
    "interleaved scene queries) with the recorded results compared. An audit hook watches for files opened for writing under "
    "the dataset."
)
LEVEL_NOTE = "Tracking scores are compared only given the same immediate predecessor; pooled-AP order independence needs distinct confidences (the generator guarantees them)."
TECHNIQUE = "runtime monitoring: history checker over recorded manager call sequences (snapshots at quiescent points, two-execution comparator fresh vs prefixed) + reference pooling oracle + sys.addaudithook no-write monitor"
RULE = (
    "generated datasets of 2..8 samples loaded by the real manager (ego or map frame); call sequences of length <= 12 drawn from "
    "{add(frame i, critical config j in {own, wider, narrower}), scene()} incl. repetitions and permutations; non-trivial = "
    "sequence that re-evaluates a ground-truth frame or queries the scene after >= 2 frames; distinct = (task, frame id, "
    "sequence shape classes: re-evaluated?, narrower-before?, scene queries, permuted?)"
    " Later additions: one-frame scenes compared on tracking scores too; every frame's tracking score vs. the library's CLEAR on (results of the frame evaluated immediately before, own results); sparse recordings with gaps of seconds; adjacent-float confidences in pooling."
)
ASSUMPTIONS = ["confidences are pairwise distinct", "scene pooling groups a result under its estimate's label, or its ground truth's label when the estimate's label is not a target (the library's rule)"]
DECIDING = ["add_frame_result.snapshots_checked", "get_scene_result.judged", "C13.probe_comparisons", "C13.reevaluated_after_narrower", "C13.one_frame_scenes", "C13.permutations_compared", "C13.interpolated_lookups", "C13.adjacent_confidence_poolings", "C13.audit_events_seen"]
JOBS = {"quick": 4, "thorough": 14}

AUDIT: Dict[str, Any] = {"root": None, "writes": [], "events": 0, "installed": False}


def install_audit() -> None:
    if AUDIT["installed"]:
        return

    def hook(event: str, args: Tuple) -> None:
        if event != "open" or AUDIT["root"] is None:
            return
        try:
            path, mode = args[0], args[1]
            if not isinstance(path, (str, bytes, os.PathLike)):
                return
            p = os.fspath(path)
            if isinstance(p, bytes):
                p = p.decode(errors="ignore")
            root = AUDIT["root"]
            if not p.startswith(root) or p.startswith(os.path.join(root, "_result")):
                return
            AUDIT["events"] += 1
            if mode is not None and any(c in str(mode) for c in "wax+"):
                AUDIT["writes"].append((p, str(mode)))
        except Exception:
            pass

    sys.addaudithook(hook)
    AUDIT["installed"] = True


def gt_snapshot(manager: Any) -> List[Tuple[int, Tuple[int, ...]]]:
    return [(id(f), tuple(id(o) for o in f.objects)) for f in manager.ground_truth_frames]


def gt_digest(manager: Any) -> List[Any]:
    """Content of the loaded ground truth: time stamps, ego poses and object poses (not only identities)."""
    out = []
    for f in manager.ground_truth_frames:
        try:
            ego = tuple(np.asarray(f.transforms[("base_link", "map")].matrix, dtype=float).round(9).ravel().tolist())
        except Exception:  # noqa: BLE001
            ego = None
        out.append((f.unix_time, f.frame_name, ego, tuple((o.uuid, tuple(float(v) for v in o.state.position), tuple(float(v) for v in o.state.orientation.elements), str(o.frame_id)) for o in f.objects)))
    return out


def judge_frame_tracking(ctx: Ctx, fr: Any, prev: Any) -> None:
    """A frame's tracking score is the score of the two-frame history (results of the frame evaluated immediately before on
    this manager - none for the first -, results of this frame): whatever lies between the two evaluations (time gap,
    queries, other calls). Reference = the library's own CLEAR on that history (CLEAR itself is judged under C05)."""
    from perception_eval.evaluation.metrics.tracking.clear import CLEAR

    ts_list = list(getattr(fr.metrics_score, "tracking_scores", []) or [])
    if not ts_list:
        return
    labels = {c.target_labels[0] for ts in ts_list for c in ts.clears}

    def divide(results):
        out: Dict[Any, List[Any]] = {l: [] for l in labels}
        for r in results:
            lab = r.estimated_object.semantic_label.label
            if lab not in out:
                if r.ground_truth_object is None:
                    continue
                lab = r.ground_truth_object.semantic_label.label
                if lab not in out:
                    continue
            out[lab].append(r)
        return out

    cur, prv = divide(fr.object_results), divide(prev.object_results) if prev is not None else {l: [] for l in labels}
    for ts in ts_list:
        for c in ts.clears:
            lab = c.target_labels[0]
            ref = CLEAR([list(prv[lab]), list(cur[lab])], c.num_ground_truth, list(c.target_labels), c.matching_mode, list(c.matching_threshold_list))
            ctx.count("C13.frame_tracking_scores_checked")
            if prev is not None and prv[lab]:
                ctx.count("C13.frame_tracking_scores_with_previous_results")
            same = close(c.tp, ref.tp, 1e-9, 0) and close(c.fp, ref.fp, 1e-9, 0) and c.id_switch == ref.id_switch and close(c.tp_matching_score, ref.tp_matching_score, 1e-9, 1e-9)
            ctx.check(same, "C13/frame_tracking_score_not_that_of_the_frame_and_its_immediate_predecessor", dict(frame=fr.frame_name, previous=None if prev is None else prev.frame_name, label=str(lab), mode=str(c.matching_mode), got=[c.tp, c.fp, c.id_switch, c.tp_matching_score], expected=[ref.tp, ref.fp, ref.id_switch, ref.tp_matching_score], gap_us=None if prev is None else int(fr.unix_time) - int(prev.unix_time)), "add_frame_result")


def install(taps: Taps, ctx: Ctx) -> None:
    def add_factory(orig):
        def add_frame_result(self, unix_time, ground_truth_now_frame, estimated_objects, *a, **k):
            before_gt = gt_snapshot(self)
            before_est = [id(o) for o in estimated_objects]
            before_states = [O.describe(o) for o in estimated_objects]
            n_before = len(self.frame_results)
            out = orig(self, unix_time, ground_truth_now_frame, estimated_objects, *a, **k)
            ctx.count("add_frame_result.snapshots_checked")
            ctx.check(gt_snapshot(self) == before_gt, "C13/loaded_dataset_modified_by_evaluation", dict(frame=getattr(ground_truth_now_frame, "frame_name", None), before=[len(x[1]) for x in before_gt], after=[len(f.objects) for f in self.ground_truth_frames]), "add_frame_result")
            ctx.check([id(o) for o in estimated_objects] == before_est and [O.describe(o) for o in estimated_objects] == before_states, "C13/caller_estimate_list_modified", dict(n=len(before_est)), "add_frame_result")
            ctx.check(len(self.frame_results) == n_before + 1 and self.frame_results[-1] is out, "C13/frame_result_not_appended_once", dict(n_before=n_before, n_after=len(self.frame_results)), "add_frame_result")
            prev = self.frame_results[n_before - 1] if n_before > 0 and len(self.frame_results) == n_before + 1 else None
            guarded(ctx, "add_frame_result", lambda: judge_frame_tracking(ctx, out, prev))
            return out

        return add_frame_result

    taps.method(mgr_mod.PerceptionEvaluationManager, "add_frame_result", add_factory, tapname="add_frame_result")

    def scene_factory(orig):
        def get_scene_result(self):
            before_gt = gt_snapshot(self)
            before_fr = [(id(f), tuple(id(r) for r in f.object_results)) for f in self.frame_results]
            out = orig(self)
            ctx.check(gt_snapshot(self) == before_gt and [(id(f), tuple(id(r) for r in f.object_results)) for f in self.frame_results] == before_fr, "C13/scene_query_modifies_state", dict(n_frames=len(before_fr)), "get_scene_result")
            guarded(ctx, "get_scene_result", lambda: judge_scene(ctx, self, out))
            return out

        return get_scene_result

    taps.method(mgr_mod.PerceptionEvaluationManager, "get_scene_result", scene_factory, tapname="get_scene_result")


def judge_scene(ctx: Ctx, manager: Any, ms: Any) -> None:
    """Recompute the scene detection score from the pooled frame results with the reference model."""
    tap = "get_scene_result"
    labels = list(manager.target_labels)
    pooled: Dict[Any, List[Any]] = {l: [] for l in labels}
    n_gt: Dict[Any, int] = {l: 0 for l in labels}
    for fr in manager.frame_results:
        for r in fr.object_results:
            lab = r.estimated_object.semantic_label.label
            if lab not in pooled:
                if r.ground_truth_object is None:
                    continue
                lab = r.ground_truth_object.semantic_label.label
                if lab not in pooled:
                    continue
            pooled[lab].append(r)
        for g in fr.frame_ground_truth.objects:
            if g.semantic_label.label in n_gt:
                n_gt[g.semantic_label.label] += 1
    ctx.count("get_scene_result.judged")
    info = dict(n_frames=len(manager.frame_results), n_gt=sum(n_gt.values()))
    if manager.evaluator_config.metrics_config.detection_config is not None or manager.evaluator_config.metrics_config.tracking_config is not None:
        ctx.check(ms.num_ground_truth == sum(n_gt.values()), "C13/scene_ground_truth_count_not_sum_of_frames", dict(info, scene=ms.num_ground_truth), tap)
    for m in ms.maps:
        for i, lab in enumerate(m.target_labels):
            a = m.aps[i]
            thr = m.matching_threshold_list[i]
            for metric, apobj in (("AP", a),) + ((("APH", m.aphs[i]),) if m.aphs else ()):
                ranked = sorted(pooled[lab], key=lambda r: r.estimated_object.semantic_score, reverse=True)
                weights, near = [], False
                for r in ranked:
                    k, nb = apmodel.decide(r, m.matching_mode, [lab], [thr])
                    near = near or nb
                    weights.append((apmodel.heading_weight(r.estimated_object, r.ground_truth_object) if metric == "APH" else 1.0) if k == "tp" else 0.0)
                if near:
                    ctx.count("get_scene_result.skipped_boundary")
                    continue
                ref, _ = apmodel.reference_ap(weights, n_gt[lab])
                ctx.check(
                    apobj.num_ground_truth == n_gt[lab] and apobj.objects_results_num == len(ranked) and close(float(apobj.ap), ref, 1e-9, 1e-9),
                    "C13/scene_score_not_score_of_pooled_frame_results",
                    dict(info, metric=metric, mode=str(m.matching_mode), label=str(lab), scene_value=apobj.ap, pooled_value=ref, scene_n=apobj.objects_results_num, pooled_n=len(ranked), scene_ngt=apobj.num_ground_truth, pooled_ngt=n_gt[lab]),
                    tap,
                )


def strip_tracking(d: Dict[str, Any]) -> Dict[str, Any]:
    d = dict(d)
    m = dict(d["metrics"])
    m["tracking"] = []
    m.pop("num_gt", None)
    d["metrics"] = m
    return d


def variant(scn: Any, k: int, how: str) -> Dict[str, Any]:
    c = dict(scn.critical[k])
    f = {"own": 1.0, "wider": 3.0, "narrower": 0.4}[how]
    for key in ("max_x_position_list", "max_y_position_list", "max_distance_list"):
        if key in c:
            c[key] = [round(v * f, 3) for v in c[key]]
    return c


def run(ctx: Ctx) -> None:
    install_audit()
    with Taps(ctx) as taps:
        install(taps, ctx)
        # ---- sparsely annotated recordings (key frames seconds apart) with a tracker that changes ids: every frame's tracking
        # score is judged by the add_frame_result tap against the frame and the one evaluated immediately before it
        for idx in ctx.indices("sparse_tracking", 10 if ctx.quick else 1200):
            r = ctx.rng("sparse_tracking", idx)
            scn = gen_scenario(r, task="tracking", n_frames=r.randint(2, 4), dt_us=r.choice([1_200_000, 2_500_000, 5_000_000, 400_000]), det=dict(p_switch=0.4, p_det=0.95, pos_sig=0.2), fp_share=0.0)
            ctx.begin_case("sparse_tracking", idx, **scn.info)
            with ctx.case_guard("sparse_tracking"):
                with D.DatasetDir(scn.scene_spec()) as ds:
                    run_ = Run(scn, ["base_link", "map"][idx % 2], ds)
                    run_.run_all()
                    run_.manager.get_scene_result()
                ctx.count("C13.sparse_tracking_runs")
                ctx.case(("sparse_tracking", len(scn.frames)), nontrivial=True)
        for idx in ctx.indices("histories", 40 if ctx.quick else 7000):
            r = ctx.rng("histories", idx)
            task = r.choice(["detection", "detection", "tracking", "fp_validation"])
            scn = gen_scenario(r, task=task, n_frames=r.randint(2, 5 if ctx.quick else 8))
            nF = len(scn.frames)
            frame_id = r.choice(["base_link", "map"])
            ctx.begin_case("histories", idx, frame_id=frame_id, **scn.info)
            with ctx.case_guard("histories"):
                with D.DatasetDir(scn.scene_spec()) as ds:
                    AUDIT["root"] = ds.root
                    AUDIT["writes"].clear()
                    # ---- probes on a fresh manager
                    probe_k = r.randrange(nF)
                    probe_how = r.choice(["own", "own", "wider", "narrower"])
                    fresh = Run(scn, frame_id, ds)
                    d_fresh = strip_tracking(compare.frame_digest(fresh.add(probe_k, critical=variant(scn, probe_k, probe_how))))
                    reeval = narrower_before = False
                    n_scene = 0
                    for trial in range(2 if ctx.quick else 3):
                        run_ = Run(scn, frame_id, ds)
                        L = r.randint(1, 8)
                        seq = []
                        for _ in range(L):
                            if r.random() < 0.2:
                                run_.manager.get_scene_result()
                                n_scene += 1
                                seq.append("S")
                                continue
                            if nF >= 2 and r.random() < 0.2:
                                # an interpolated ground-truth lookup between two frames (and its evaluation) is a query
                                # like any other: it leaves the loaded frames as they were
                                kk = r.randrange(nF - 1)
                                t_a, t_b = scn.frames[kk].t, scn.frames[kk + 1].t
                                t_q = t_a + int((t_b - t_a) * r.choice([0.25, 0.5, 0.8]))
                                before = gt_digest(run_.manager)
                                gi = run_.manager.get_ground_truth_now_frame(t_q, interpolate_ground_truth=True, threshold_min_time=t_b - t_a)
                                if gi is not None:
                                    crit_, pf_ = run_.configs(kk)
                                    run_.manager.add_frame_result(unix_time=t_q, ground_truth_now_frame=gi, estimated_objects=scn.make_estimates(kk, frame_id, run_.config.label_converter), critical_object_filter_config=crit_, frame_pass_fail_config=pf_)
                                ctx.count("C13.interpolated_lookups")
                                ctx.check(gt_digest(run_.manager) == before, "C13/loaded_dataset_modified_by_evaluation", dict(scn.info, frame_id=frame_id, op="interpolated lookup", between=(kk, kk + 1)), "add_frame_result")
                                seq.append(f"I{kk}")
                                continue
                            k = probe_k if r.random() < 0.5 else r.randrange(nF)
                            how = r.choice(["own", "wider", "narrower", "narrower"])
                            run_.add(k, critical=variant(scn, k, how))
                            seq.append(f"{k}{how[0]}")
                            if k == probe_k:
                                reeval = True
                                if how == "narrower":
                                    narrower_before = True
                        d_after = strip_tracking(compare.frame_digest(run_.add(probe_k, critical=variant(scn, probe_k, probe_how))))
                        ctx.count("C13.probe_comparisons")
                        diff = compare.diff(d_fresh, d_after, 1e-12)
                        if diff is not None:
                            ctx.violation("C13/frame_result_depends_on_earlier_evaluations", dict(scn.info, frame_id=frame_id, probe=(probe_k, probe_how), prefix=seq, first_difference=diff[:400]), tap="comparator")
                    if narrower_before:
                        ctx.count("C13.reevaluated_after_narrower")
                    # ---- tracking scores: same result given the same immediate predecessor
                    if task == "tracking" and nF >= 2:
                        j, k2 = r.randrange(nF), r.randrange(nF)
                        f1 = Run(scn, frame_id, ds)
                        f1.add(j)
                        d1 = compare.frame_digest(f1.add(k2))
                        f2 = Run(scn, frame_id, ds)
                        for _ in range(r.randint(1, 4)):
                            f2.add(r.randrange(nF), critical=variant(scn, 0, "own") if False else None)
                        f2.add(j)
                        d2 = compare.frame_digest(f2.add(k2))
                        ctx.count("C13.tracking_predecessor_comparisons")
                        d1["metrics"].pop("num_gt", None)
                        d2["metrics"].pop("num_gt", None)
                        dd = compare.diff(d1, d2, 1e-12)
                        if dd is not None:
                            ctx.violation("C13/tracking_result_depends_on_more_than_the_previous_frame", dict(scn.info, frame_id=frame_id, pair=(j, k2), first_difference=dd[:400]), tap="comparator")
                    # ---- one-frame scene reproduces the frame's detection score
                    one = Run(scn, frame_id, ds)
                    res = one.add(probe_k)
                    scene = one.manager.get_scene_result()
                    ctx.count("C13.one_frame_scenes")
                    a, b = compare.metrics_digest(res.metrics_score)["maps"], compare.metrics_digest(scene)["maps"]
                    dd = compare.diff(a, b, 1e-12)
                    if dd is not None:
                        ctx.violation("C13/one_frame_scene_differs_from_frame_score", dict(scn.info, frame_id=frame_id, first_difference=dd[:400]), tap="comparator")
                    # (the first frame's tracking score has an empty previous frame, exactly the history of a one-frame scene)
                    a, b = compare.metrics_digest(res.metrics_score)["tracking"], compare.metrics_digest(scene)["tracking"]
                    if a or b:
                        ctx.count("C13.one_frame_tracking_scenes")
                        dd = compare.diff(a, b, 1e-12)
                        if dd is not None:
                            ctx.violation("C13/one_frame_scene_differs_from_frame_score:tracking", dict(scn.info, frame_id=frame_id, first_difference=dd[:400]), tap="comparator")
                    # ---- pooled AP does not depend on the order frames were added
                    order = list(range(nF))
                    r.shuffle(order)
                    ra, rb = Run(scn, frame_id, ds), Run(scn, frame_id, ds)
                    for k in range(nF):
                        ra.add(k)
                    for k in order:
                        rb.add(k)
                    sa, sb = compare.metrics_digest(ra.manager.get_scene_result())["maps"], compare.metrics_digest(rb.manager.get_scene_result())["maps"]
                    ctx.count("C13.permutations_compared")
                    dd = compare.diff(sa, sb, 1e-9)
                    if dd is not None:
                        ctx.violation("C13/pooled_ap_depends_on_frame_order", dict(scn.info, frame_id=frame_id, order=order, first_difference=dd[:400]), tap="comparator")
                    # ---- no file under the dataset opened for writing
                    ctx.counters["C13.audit_events_seen"] += AUDIT["events"]
                    AUDIT["events"] = 0
                    if AUDIT["writes"]:
                        ctx.violation("C13/dataset_file_opened_for_writing", dict(files=AUDIT["writes"][:3]), tap="audit")
                    AUDIT["root"] = None
                ctx.case((task, frame_id, reeval, narrower_before, min(n_scene, 2), order != sorted(order)), nontrivial=reeval or nF >= 2, sample=dict(scn.info, frame_id=frame_id, probe=(probe_k, probe_how)) if idx < 3 else None)
        # ---- pooled AP with distinct but adjacent confidences: the strict order decides, not the order of the frames
        from perception_eval.common.label import AutowareLabel
        from perception_eval.evaluation.matching import MatchingMode
        from perception_eval.evaluation.metrics.detection.map import Map
        from perception_eval.evaluation.result.object_result import DynamicObjectWithPerceptionResult

        from .. import apmodel

        for idx in ctx.indices("adjacent_confidences", 60 if ctx.quick else 6000):
            r = ctx.rng("adjacent_confidences", idx)
            n_frames = r.randint(2, 4)
            base = round(r.uniform(0.1, 0.9), 3)
            confs = [base]
            for _ in range(2 * n_frames):
                confs.append(float(np.nextafter(confs[-1], 2.0)) if r.random() < 0.7 else round(r.uniform(0.05, 0.95), 4))
            confs = list(dict.fromkeys(confs))
            r.shuffle(confs)
            frames_res, n_gt = [], 0
            for f in range(n_frames):
                fr = []
                for j in range(r.randint(1, 2)):
                    if not confs:
                        break
                    c = confs.pop()
                    tp = r.random() < 0.5
                    g = O.obj3d(5.0 + 7 * j, 3.0 * f, 0.0, 0.3, lab="car", uuid=f"g{f}{j}")
                    e = O.obj3d(5.0 + 7 * j + (0.2 if tp else 3.0), 3.0 * f, 0.0, 0.3, lab="car", score=c, uuid=f"e{f}{j}")
                    fr.append(DynamicObjectWithPerceptionResult(e, g))
                    n_gt += 1
                frames_res.append(fr)
            ctx.begin_case("adjacent_confidences", idx, n_frames=n_frames)
            with ctx.case_guard("adjacent_confidences"):
                maps = []
                for order in (list(range(n_frames)), list(reversed(range(n_frames))), r.sample(range(n_frames), n_frames)):
                    nested = [list(frames_res[k]) for k in order]
                    m = Map(object_results_dict={AutowareLabel.CAR: nested}, num_ground_truth_dict={AutowareLabel.CAR: n_gt}, target_labels=[AutowareLabel.CAR], matching_mode=MatchingMode.CENTERDISTANCE, matching_threshold_list=[1.0])
                    maps.append((m.map, m.maph))
                flat = sorted([x for fr in frames_res for x in fr], key=lambda x: -x.estimated_object.semantic_score)
                ref, _ = apmodel.reference_ap([1.0 if abs(x.estimated_object.state.position[0] - x.ground_truth_object.state.position[0]) < 1.0 else 0.0 for x in flat], n_gt)
                ctx.count("C13.adjacent_confidence_poolings")
                ok = all(abs(a[0] - maps[0][0]) <= 1e-12 and abs(a[1] - maps[0][1]) <= 1e-12 for a in maps) and abs(maps[0][0] - ref) <= 1e-9
                ctx.check(ok, "C13/pooled_ap_depends_on_frame_order", dict(n_frames=n_frames, by_order=maps, reference=ref, confidences=[x.estimated_object.semantic_score for x in flat]), "comparator")
                ctx.case(("adjacent_confidences", n_frames), nontrivial=True)
        ctx.notes["taps"] = taps.installed
