"""C16 - loading a dataset reproduces its annotations as ground-truth frames."""
from __future__ import annotations

import math
import os
from typing import Any, Dict, List, Optional, Tuple

import numpy as np

from perception_eval.common import dataset as ds_mod
from perception_eval.common.evaluation_task import EvaluationTask
from perception_eval.common.label import LabelConverter
from perception_eval.common.schema import FrameID, Visibility

from ..core import Ctx, Taps, guarded
from ..gen import dataset as D
from ..gen import objects as O
from ..oracles import geometry as G
from .c13 import AUDIT, install_audit

LEVEL_TEXT = (
    "Held on every dataset loaded under the monitor: load_all_datasets (all aliases) is tapped and every returned frame list "
    "is compared with the tables the generator wrote: one frame per sample in order with the sample's timestamp; per frame one "
    "object per annotation carrying its instance id, converted label (oracle's own category table, merge on/off), attributes, "
    "box size, lidar point count and visibility member; map-frame poses equal the annotated global pose, ego-frame poses equal "
    "the pose moved by the inverse ego pose (oracle's own quaternion algebra, arbitrary 3D ego and object rotations), the "
    "stored ego-to-map transform maps the one onto the other, and tracking histories equal the instance's preceding annotated "
    "poses inside the loader's window. An audit hook watches for files opened for writing under the dataset. Datasets: 1..15 "
    "samples, instances appearing / disappearing, registered and unregistered categories, all visibility levels in both "
    "spellings, 1..4 sensors, both lidar channel names, detection / tracking / sensing / fp_validation, both frame ids, real "
    "managers included; the bundled fixture is loaded too."
)
LEVEL_NOTE = "The lidar is calibrated at the ego origin (as in T4 data); tracked-history coordinates are asserted in the map frame only (in the ego frame the devkit returns global records, count asserted only)."
TECHNIQUE = "runtime monitoring: tap on load_all_datasets + generator tables as oracle (own rigid algebra) + sys.addaudithook no-write monitor"
RULE = (
    "generated T4 directories (1..15 samples, 0..8 instances with gaps, random 3D poses up to 1e4 m, categories inside and "
    "outside the label table, 4 visibility levels x 2 spellings or no visibility table, extra camera/radar sensors) loaded "
    "with each of {detection, tracking, sensing, fp_validation} x {base_link, map} x merge on/off; non-trivial = dataset with "
    ">= 1 annotation; distinct = (task, frame id, merge, vis style, lidar channel, #sensors, disappearing instance?, unregistered category?, n_samples class)"
)
ASSUMPTIONS = ["lidar calibrated_sensor is the identity", "positions compared at 1e-6 + 1e-9*|coordinate|, rotations at 1e-7 on matrix entries"]
DECIDING = ["load_all_datasets.judged", "C16.frames_checked", "C16.objects_checked", "C16.ego_frame_objects", "C16.map_frame_objects", "C16.tracking_histories_checked", "C16.datasets_with_disappearing_instance", "C16.datasets_with_unregistered_category", "C16.audit_events_seen", "C16.multi_dataset_loads"]
JOBS = {"quick": 4, "thorough": 14}

CATEGORY_LABEL = {
    # category -> (label without merging, label with merging)
    "car": ("car", "car"),
    "vehicle.car": ("car", "car"),
    "vehicle.police": ("car", "car"),
    "vehicle.bus": ("bus", "car"),
    "bus": ("bus", "car"),
    "truck": ("truck", "car"),
    "trailer": ("truck", "car"),
    "bicycle": ("bicycle", "bicycle"),
    "motorcycle": ("motorbike", "bicycle"),
    "vehicle.motorcycle": ("motorbike", "bicycle"),
    "pedestrian.adult": ("pedestrian", "pedestrian"),
    "stroller": ("pedestrian", "pedestrian"),
    "animal": ("unknown", "unknown"),
    "movable_object.barrier": ("unknown", "unknown"),
    "unregistered.thing": ("unknown", "unknown"),
    # outside the table although a part of the name is a registered name
    "rental.bicycle": ("unknown", "unknown"),
    "human.pedestrian.adult": ("unknown", "unknown"),
    "object.car": ("unknown", "unknown"),
    "minibus": ("unknown", "unknown"),
    "Vehicle.Car": ("car", "car"),
    "false_positive": ("false_positive", "false_positive"),
}
REGISTERED_OR_CASE = {"unregistered.thing", "rental.bicycle", "human.pedestrian.adult", "object.car", "minibus"}
CURRENT: Dict[str, Any] = {"spec": None}


def install(taps: Taps, ctx: Ctx) -> None:
    def factory(orig):
        def load_all_datasets(dataset_paths, evaluation_task, label_converter, frame_id, load_raw_data=False):
            out = orig(dataset_paths, evaluation_task, label_converter, frame_id, load_raw_data)
            spec = CURRENT.get("spec")
            multi = CURRENT.get("multi")
            if multi is not None and list(dataset_paths) == [root for root, _ in multi]:
                # several datasets: their frames follow each other in the order of the paths, whatever their time stamps
                fid = frame_id if isinstance(frame_id, FrameID) else list(frame_id)[0]
                total = sum(len(sp.samples) for _, sp in multi)
                ctx.count("C16.multi_dataset_loads")
                ctx.check(len(out) == total, "C16/number_of_frames_differs_from_samples", dict(n_frames=len(out), n_samples=total, n_datasets=len(multi)), "load_all_datasets")
                if len(out) == total:
                    k0 = 0
                    for _, sp in multi:
                        part = out[k0 : k0 + len(sp.samples)]
                        k0 += len(sp.samples)
                        guarded(ctx, "load_all_datasets", lambda part=part, sp=sp: judge(ctx, sp, part, evaluation_task, label_converter, fid))
            elif spec is not None and list(dataset_paths) == [CURRENT.get("root")]:
                fid = frame_id if isinstance(frame_id, FrameID) else list(frame_id)[0]
                guarded(ctx, "load_all_datasets", lambda: judge(ctx, spec, out, evaluation_task, label_converter, fid))
            else:
                ctx.count("load_all_datasets.unknown_dataset")
            return out

        return load_all_datasets

    taps.fn(ds_mod, "load_all_datasets", factory)


def rot_close(qa, qb, tol=1e-7) -> bool:
    return G.same_rotation(qa, qb, tol)


def judge(ctx: Ctx, spec: D.SceneSpec, frames: List[Any], task: Any, conv: Any, frame_id: FrameID) -> None:
    tap = "load_all_datasets"
    ctx.count("load_all_datasets.judged")
    merge = CURRENT["merge"]
    info0 = dict(task=str(task), frame_id=str(frame_id), merge=merge, n_samples=len(spec.samples))
    ctx.check(len(frames) == len(spec.samples), "C16/number_of_frames_differs_from_samples", dict(info0, n_frames=len(frames)), tap)
    hist: Dict[str, List[Tuple[int, D.Ann]]] = {}
    for k, (fr, s) in enumerate(zip(frames, spec.samples)):
        ctx.count("C16.frames_checked")
        info = dict(info0, sample=k)
        ctx.check(fr.unix_time == s.t, "C16/frame_timestamp_differs_from_sample", dict(info, got=fr.unix_time, expected=s.t), tap)
        ctx.check(fr.frame_name == str(k), "C16/frame_order_or_name_differs", dict(info, name=fr.frame_name), tap)
        objs = {o.uuid: o for o in fr.objects}
        ctx.check(len(objs) == len(fr.objects) == len(s.anns) and set(objs) == {a.inst for a in s.anns}, "C16/objects_do_not_match_annotations_one_to_one", dict(info, loaded=sorted(objs)[:8], annotated=sorted(a.inst for a in s.anns)[:8]), tap)
        # stored ego->map transform
        m = fr.transforms.get((FrameID.BASE_LINK, FrameID.MAP))
        Mexp = G.homogeneous(s.ego_pos, s.eq())
        if m is None:
            ctx.violation("C16/ego_to_map_transform_missing", info, tap=tap)
            M = Mexp
        else:
            M = np.asarray(m.matrix, dtype=float)
            ctx.check(float(np.abs(M - Mexp).max()) <= 1e-7 + 1e-9 * float(np.abs(Mexp).max()), "C16/stored_ego_to_map_transform_differs_from_ego_pose", dict(info), tap)
        Minv = G.inv_rigid(Mexp)
        for a in s.anns:
            o = objs.get(a.inst)
            if o is None:
                continue
            ctx.count("C16.objects_checked")
            oi = dict(info, inst=a.inst, category=a.category)
            exp_lab = CATEGORY_LABEL[a.category][1 if merge else 0]
            ctx.check(O.lab_of(o) == exp_lab, "C16/label_differs_from_converted_category", dict(oi, got=O.lab_of(o), expected=exp_lab), tap)
            ctx.check(o.semantic_label.name == a.category and list(o.semantic_label.attributes) == list(a.attrs), "C16/label_name_or_attributes_differ", dict(oi, name=o.semantic_label.name, attrs=list(o.semantic_label.attributes), expected_attrs=list(a.attrs)), tap)
            ctx.check(all(abs(x - y) <= 1e-9 for x, y in zip(o.state.size, a.size)), "C16/box_size_differs", dict(oi, got=list(o.state.size), expected=list(a.size)), tap)
            ctx.check(o.pointcloud_num == a.npts, "C16/lidar_point_count_differs", dict(oi, got=o.pointcloud_num, expected=a.npts), tap)
            if spec.vis_style is None:
                ctx.check(o.visibility is None, "C16/visibility_without_visibility_table", dict(oi, got=repr(o.visibility)), tap)
            else:
                level = D.VIS_TABLES[spec.vis_style][a.vis]
                exp_vis = Visibility(D.VIS_EXPECT[level])
                ctx.check(o.visibility is exp_vis, "C16/visibility_differs_from_annotated_level", dict(oi, got=repr(o.visibility), expected=repr(exp_vis), level=level), tap)
            ctx.check(o.unix_time == s.t and O.frame_of(o) == frame_id.value, "C16/object_time_or_frame_id_differs", dict(oi, time=o.unix_time, frame=O.frame_of(o)), tap)
            q = o.state.orientation
            qo = (q.w, q.x, q.y, q.z)
            p = np.array(o.state.position, dtype=float)
            gp = np.array(a.pos, dtype=float)
            if frame_id == FrameID.MAP:
                ctx.count("C16.map_frame_objects")
                ctx.check(float(np.abs(p - gp).max()) <= 1e-6 + 1e-9 * float(np.abs(gp).max()) and rot_close(qo, a.q()), "C16/map_frame_pose_differs_from_annotated_global_pose", dict(oi, got=p.tolist(), expected=gp.tolist()), tap)
            else:
                ctx.count("C16.ego_frame_objects")
                ep = (Minv @ np.append(gp, 1.0))[:3]
                eq = G.quat_mul(G.quat_conj(tuple(v / math.sqrt(sum(x * x for x in s.eq())) for v in s.eq())), a.q())
                tolp = 1e-6 + 1e-9 * float(max(np.abs(gp).max(), np.abs(np.array(s.ego_pos)).max()))
                ctx.check(float(np.abs(p - ep).max()) <= tolp and rot_close(qo, eq, 1e-6), "C16/ego_frame_pose_differs_from_inverse_ego_pose_of_global_pose", dict(oi, got=p.tolist(), expected=ep.tolist()), tap)
                # the stored transform maps the ego-frame pose onto the annotated global pose
                back = (M @ np.append(p, 1.0))[:3]
                ctx.check(float(np.abs(back - gp).max()) <= 10 * tolp, "C16/stored_transform_does_not_map_ego_pose_onto_global_pose", dict(oi, got=back.tolist(), expected=gp.tolist()), tap)
            # tracking history
            prev = hist.get(a.inst, [])
            if task == EvaluationTask.TRACKING:
                exp_hist = []
                for (pk, pa) in reversed(prev):
                    el = abs(spec.samples[pk].t - s.t) / 1e6
                    if len(exp_hist) >= 6:
                        break
                    if el < 3.0 + 0.15:
                        exp_hist.append(pa)
                    if el > 3.0 + 0.15:
                        break
                tp = o.tracked_path or []
                ctx.count("C16.tracking_histories_checked")
                ctx.check(len(tp) == len(exp_hist), "C16/tracking_history_length_differs_from_preceding_annotations", dict(oi, got=len(tp), expected=len(exp_hist)), tap)
                if frame_id == FrameID.MAP and len(tp) == len(exp_hist):
                    for st, pa in zip(tp, exp_hist):
                        sq = st.orientation
                        okp = float(np.abs(np.array(st.position, dtype=float) - np.array(pa.pos)).max()) <= 1e-6 + 1e-9 * float(np.abs(np.array(pa.pos)).max())
                        ctx.check(okp and rot_close((sq.w, sq.x, sq.y, sq.z), pa.q()) and all(abs(x - y) <= 1e-9 for x, y in zip(st.size, pa.size)), "C16/tracking_history_pose_differs_from_preceding_annotation", dict(oi, got=list(map(float, st.position)), expected=list(pa.pos)), tap)
            else:
                ctx.check(o.tracked_path is None, "C16/tracking_history_present_outside_tracking_task", dict(oi), tap)
        for a in s.anns:
            hist.setdefault(a.inst, []).append((k, a))


def rand_quat(r, yaw_only: bool) -> Tuple[float, float, float, float]:
    if yaw_only:
        return G.quat_from_yaw(O.rand_yaw(r))
    axis = (r.gauss(0, 1), r.gauss(0, 1), r.gauss(0, 1) + 1e-3)
    q = G.quat_from_axis_angle(axis, r.uniform(-math.pi, math.pi))
    return tuple(-v for v in q) if r.random() < 0.5 else q


def gen_dataset(r, task: str) -> Tuple[D.SceneSpec, Dict[str, Any]]:
    n = r.choice([1, 1, 2, 3, 5, 8, 15]) if r.random() < 0.8 else r.randint(1, 15)
    t = 1_600_000_000_000_000 + r.randint(0, 10**9)
    vis_style = r.choice(["plain", "alias", "plain", None])
    cats = [c for c in CATEGORY_LABEL if c != "false_positive"] if task != "fp_validation" else ["false_positive"]
    if task != "fp_validation" and r.random() < 0.3:
        cats = cats + ["false_positive"]
    n_inst = r.randint(0, 8)
    far = r.random() < 0.5
    insts = []
    for i in range(n_inst):
        insts.append(dict(key=f"inst{i:02d}", cat=r.choice(cats), p=[r.uniform(-1e4, 1e4) if far else r.uniform(-100, 100) for _ in range(2)] + [r.uniform(-3, 3)], v=[r.uniform(-10, 10), r.uniform(-10, 10), 0.0], q=rand_quat(r, r.random() < 0.6), size=(r.uniform(0.3, 3), r.uniform(0.3, 12), r.uniform(0.5, 4)), attrs=tuple(r.choice([[], ["vehicle.moving"], ["cycle.with_rider", "x.y"]])), present=[r.random() < 0.75 for _ in range(n)]))
    samples = []
    vis_tokens = list(D.VIS_TABLES[vis_style or "plain"].keys())
    ego0 = [r.uniform(-1e4, 1e4) if far else r.uniform(-100, 100) for _ in range(2)] + [r.uniform(-2, 2)]
    disappearing = False
    for k in range(n):
        t += r.choice([100_000, 100_000, 500_000, 1_000_000, 2_500_000]) if k else 0
        sec = k * 0.3
        eq = rand_quat(r, r.random() < 0.6)
        ep = (ego0[0] + 3.0 * sec, ego0[1] - 1.0 * sec, ego0[2])
        anns = []
        for ins in insts:
            if not ins["present"][k]:
                if any(ins["present"][:k]):
                    disappearing = True
                continue
            pos = tuple(ins["p"][i] + ins["v"][i] * sec for i in range(3))
            dq = G.quat_from_yaw(0.1 * sec)
            anns.append(D.Ann(inst=ins["key"], category=ins["cat"], pos=pos, yaw=0.0, quat=G.quat_mul(ins["q"], dq), size=ins["size"], npts=r.choice([0, 1, 7, 250]), vis=r.choice(vis_tokens), attrs=ins["attrs"], radar_pts=r.choice([0, 0, 3, 40])))
        samples.append(D.Sample(t=t, ego_pos=ep, ego_yaw=0.0, ego_quat=eq, anns=anns))
    extra = []
    for ch, mod in r.sample([("CAM_FRONT", "camera"), ("CAM_BACK_LEFT", "camera"), ("RADAR_FRONT", "radar"), ("RADAR_BACK", "radar"), ("CAM_TRAFFIC_LIGHT_NEAR", "camera")], r.randint(0, 3)):
        extra.append((ch, mod, (r.uniform(-2, 2), r.uniform(-1, 1), r.uniform(0, 2)), rand_quat(r, False)))
    raw = r.random() < 0.3
    spec = D.SceneSpec(samples=samples, lidar_channel=r.choice(["LIDAR_TOP", "LIDAR_CONCAT"]), extra_sensors=extra, vis_style=vis_style, categories=sorted(set(cats)) if r.random() < 0.5 else None, raw_files=raw, record_stamp_offset_us=r.choice([0, 0, 37_000, 1]), instance_names=r.random() < 0.4, scene_starts=(0,) if (n < 2 or r.random() < 0.7) else tuple(sorted({0, r.randrange(1, n)} | ({r.randrange(1, n)} if r.random() < 0.3 else set()))), sensor_ego_offset=(r.uniform(-0.6, 0.6), r.uniform(-0.3, 0.3), 0.0) if (extra and r.random() < 0.5) else None)
    info = dict(n_samples=n, n_inst=n_inst, vis_style=vis_style, lidar=spec.lidar_channel, n_sensors=1 + len(extra), disappearing=disappearing, unregistered=any(a.category in REGISTERED_OR_CASE for s in samples for a in s.anns), far=far)
    return spec, info


def run(ctx: Ctx) -> None:
    import perception_eval.common.dataset as base_mod  # (the module that defines the functions called below)

    install_audit()
    with Taps(ctx) as taps:
        install(taps, ctx)
        for idx in ctx.indices("datasets", 160 if ctx.quick else 60000):
            r = ctx.rng("datasets", idx)
            task = ["detection", "tracking", "sensing", "fp_validation"][idx % 4]
            spec, info = gen_dataset(r, task)
            merge = r.random() < 0.5
            ctx.begin_case("datasets", idx, task=task, merge=merge, **info)
            with ctx.case_guard("datasets"):
                with D.DatasetDir(spec) as dsd:
                    AUDIT["root"] = dsd.root
                    AUDIT["writes"].clear()
                    CURRENT.update(spec=spec, root=dsd.root, merge=merge)
                    if info["disappearing"]:
                        ctx.count("C16.datasets_with_disappearing_instance")
                    if info["unregistered"]:
                        ctx.count("C16.datasets_with_unregistered_category")
                    for fid in (FrameID.BASE_LINK, FrameID.MAP):
                        conv = LabelConverter(task, merge, "autoware")
                        base_mod.load_all_datasets(dataset_paths=[dsd.root], evaluation_task=EvaluationTask.from_value(task), label_converter=conv, frame_id=fid, load_raw_data=bool(spec.raw_files))
                        if spec.raw_files:
                            ctx.count("C16.loads_with_raw_data")
                    # through a real manager as well (detection / tracking / sensing)
                    if idx % 5 == 0 and task in ("detection", "tracking"):
                        from perception_eval.config import PerceptionEvaluationConfig
                        from perception_eval.manager import PerceptionEvaluationManager

                        cfg = PerceptionEvaluationConfig([dsd.root], "map" if task == "tracking" else "base_link", dsd.result_root, {"evaluation_task": task, "target_labels": ["car", "pedestrian"], "label_prefix": "autoware", "merge_similar_labels": merge, "max_x_position": 100.0, "max_y_position": 100.0, "min_point_numbers": 0, "center_distance_thresholds": [1.0]})
                        PerceptionEvaluationManager(cfg)
                    ctx.counters["C16.audit_events_seen"] += AUDIT["events"]
                    AUDIT["events"] = 0
                    if AUDIT["writes"]:
                        ctx.violation("C16/dataset_file_opened_for_writing", dict(files=AUDIT["writes"][:3]), tap="audit")
                    AUDIT["root"] = None
                    CURRENT.update(spec=None, root=None)
                n_ann = sum(len(s.anns) for s in spec.samples)
                ctx.case((task, merge, info["vis_style"], info["lidar"], info["n_sensors"], info["disappearing"], info["unregistered"], min(info["n_samples"], 4)), nontrivial=n_ann > 0, sample=dict(info, task=task, merge=merge, n_annotations=n_ann) if idx < 4 else None)
        # ---- several datasets in one load, not listed chronologically
        for idx in ctx.indices("multi", 12 if ctx.quick else 1500):
            r = ctx.rng("multi", idx)
            task = ["detection", "tracking", "sensing"][idx % 3]
            specs = [gen_dataset(r, task)[0] for _ in range(r.randint(2, 3))]
            merge = r.random() < 0.5
            ctx.begin_case("multi", idx, task=task, merge=merge, n_datasets=len(specs), first_times=[sp.samples[0].t for sp in specs])
            with ctx.case_guard("multi"):
                import contextlib

                with contextlib.ExitStack() as stack:
                    dirs = [stack.enter_context(D.DatasetDir(sp)) for sp in specs]
                    CURRENT.update(spec=None, root=None, merge=merge, multi=[(d.root, sp) for d, sp in zip(dirs, specs)])
                    conv = LabelConverter(task, merge, "autoware")
                    base_mod.load_all_datasets(dataset_paths=[d.root for d in dirs], evaluation_task=EvaluationTask.from_value(task), label_converter=conv, frame_id=r.choice([FrameID.BASE_LINK, FrameID.MAP]), load_raw_data=False)
                    CURRENT.update(multi=None)
                times = [sp.samples[0].t for sp in specs]
                ctx.case(("multi", task, len(specs), times == sorted(times)), nontrivial=True)
        # ---- the bundled fixture (loaded, counted; no generator tables for it)
        fixture = os.path.join(os.environ.get("VERIF_REPO", "/repo"), "perception_eval", "test", "sample_data")
        if ctx.mine(0) and os.path.isdir(fixture):
            with ctx.case_guard("fixture"):
                conv = LabelConverter("detection", False, "autoware")
                fr = base_mod.load_all_datasets([fixture], EvaluationTask.DETECTION, conv, FrameID.BASE_LINK, False)
                ctx.notes["fixture"] = dict(frames=len(fr), objects=len(fr[0].objects), label=O.lab_of(fr[0].objects[0]), visibility=repr(fr[0].objects[0].visibility))
        ctx.notes["taps"] = taps.installed
