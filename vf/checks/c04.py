"""C04 - AP / APH / mAP are the interpolated precision-recall area, within [0, 1]."""
from __future__ import annotations

import itertools
import math
from typing import Any, Dict, List

from perception_eval.common.label import AutowareLabel
from perception_eval.evaluation import DynamicObjectWithPerceptionResult
from perception_eval.evaluation.matching import MatchingLabelPolicy, MatchingMode
from perception_eval.evaluation.metrics.detection.ap import Ap
from perception_eval.evaluation.metrics.detection.tp_metrics import TPMetricsAp, TPMetricsAph

from .. import apmodel
from ..core import Ctx, Taps
from ..gen import objects as O

LEVEL_TEXT = (
    "Held on every Ap / Map object constructed under the monitor: the post-state of Ap.__init__ (ap, tp_list) is compared with "
    "an independent reference (stable ranking, cumulative weighted TP, area under the precision envelope) where correctness of "
    "each result is decided by the oracle's own geometry and label-policy model and the heading weight by the oracle's own yaw "
    "algebra; range, APH<=AP, AP=1 / AP=0 classes and mAP = mean of defined APs are asserted on the same events. Rankings are "
    "enumerated exhaustively up to a bound (all TP / weighted-TP / matched-FP / unmatched-FP / ignored sequences x all "
    "ground-truth counts), long random rankings and whole scenes through the real manager (frame and scene level) add the rest."
)
LEVEL_NOTE = "AP range clause asserted only when #TP <= #GT (what one-to-one matching and conservation guarantee); with confidence ties only order-free clauses are asserted."
TECHNIQUE = "runtime monitoring: taps on Ap.__init__/Map.__init__ + reference AP model; exhaustive small-scope ranking enumeration"
RULE = (
    "(a) exhaustive: every ranking over result kinds {TP(w=1), TP(heading off by 90deg), matched-FP(far), matched-FP(label), "
    "unmatched-FP, ignored} of length <= 5 (quick; <= 7 thorough) x nGT in 0..len+1, built from real result objects with strictly "
    "decreasing confidences, for AP and APH; (b) random rankings up to 400 results incl. confidence ties, all matching modes; "
    "(c) every Ap/Map built inside scenario runs through the real manager (frame-level and get_scene_result). non-trivial = "
    "ranking with >= 1 result and nGT >= 1; distinct = distinct (source, metric, mode, length class, nGT class, multiset of kinds)"
    " Later additions: every ranked result's ground truth must be one of the ground truths counted for its frame (manager runs); maps of a mode vs. the thresholds configured for that mode."
)
ASSUMPTIONS = [
    "ignored results (label without threshold) still occupy a rank in the precision denominator (the specification's 'ranking results')",
    "plane distance of map-frame pairs is taken from the stored matching value (validated by C06/C07), all other scores are recomputed",
    "a matching score within 1e-6 of its threshold makes the whole Ap event unjudged (counted)",
]
DECIDING = ["Ap.events_judged", "Ap.range_checked", "Ap.class_one", "Ap.class_zero", "Map.checked", "Map.aph_le_ap_checked", "C04.exhaustive_rankings", "frame_metrics.metrics_recomputed", "scene_metrics.metrics_recomputed"]
JOBS = {"quick": 4, "thorough": 14}

CAR = AutowareLabel.CAR
MODE_THR = {MatchingMode.CENTERDISTANCE: 1.0, MatchingMode.PLANEDISTANCE: 1.0, MatchingMode.IOU2D: 0.5, MatchingMode.IOU3D: 0.5}
KINDS_Q = ["T", "H", "F", "L", "U", "I"]


def make_result(kind: str, conf: float, slot: int) -> Any:
    """A real result object of the requested kind at a private location."""
    x0, y0 = 10.0 + 20.0 * slot, 5.0
    gt = O.obj3d(x0, y0, 0.0, 0.3, 2.0, 4.0, 1.5, "car", uuid=f"g{slot}")
    if kind == "T":
        est = O.obj3d(x0 + 0.05, y0, 0.0, 0.3, 2.0, 4.0, 1.5, "car", score=conf)
    elif kind == "H":  # correct but heading off by 90 degrees -> APH weight 0.5 (square footprint keeps IoU high)
        gt = O.obj3d(x0, y0, 0.0, 0.3, 3.0, 3.0, 1.5, "car", uuid=f"g{slot}")
        est = O.obj3d(x0, y0, 0.0, 0.3 + math.pi / 2, 3.0, 3.0, 1.5, "car", score=conf)
    elif kind == "Q":  # heading off by 45 degrees
        gt = O.obj3d(x0, y0, 0.0, 0.3, 3.0, 3.0, 1.5, "car", uuid=f"g{slot}")
        est = O.obj3d(x0, y0, 0.0, 0.3 + math.pi / 4, 3.0, 3.0, 1.5, "car", score=conf)
    elif kind == "F":  # matched, but far beyond every threshold
        est = O.obj3d(x0 + 3.0, y0 + 2.5, 0.0, 0.3, 2.0, 4.0, 1.5, "car", score=conf)
    elif kind == "L":  # matched to a car, wrong label
        est = O.obj3d(x0 + 0.05, y0, 0.0, 0.3, 2.0, 4.0, 1.5, "pedestrian", score=conf)
    elif kind == "U":
        est = O.obj3d(x0, y0, 0.0, 0.3, 2.0, 4.0, 1.5, "car", score=conf)
        gt = None
    elif kind == "I":  # unmatched, label outside the target list -> no threshold -> ignored
        est = O.obj3d(x0, y0, 0.0, 0.3, 2.0, 4.0, 1.5, "pedestrian", score=conf)
        gt = None
    else:
        raise ValueError(kind)
    return DynamicObjectWithPerceptionResult(est, gt, MatchingLabelPolicy.DEFAULT)


def exhaustive(ctx: Ctx, max_len: int, kinds: List[str], modes: List[MatchingMode]) -> None:
    pool: Dict[Any, Any] = {}
    for k in kinds:
        for pos in range(max_len):
            pool[(k, pos)] = make_result(k, round(0.95 - 0.1 * pos, 3), pos)
    idx = 0
    complete = True
    for L in range(0, max_len + 1):
        for seq in itertools.product(kinds, repeat=L):
            idx += 1
            if not ctx.mine(idx):
                continue
            if ctx.deadline is not None and idx % 512 == 0:
                import time

                if time.time() > ctx.deadline:
                    complete = False
                    ctx.inconclusive.append("watchdog:exhaustive_rankings")
                    break
            results = [pool[(k, p)] for p, k in enumerate(seq)]
            for mode in modes:
                for n_gt in range(0, L + 2):
                    ctx.begin_case("exhaustive", idx, seq="".join(seq), n_gt=n_gt, mode=str(mode))
                    a = Ap(TPMetricsAp(), list(results), n_gt, [CAR], mode, [MODE_THR[mode]])
                    h = Ap(TPMetricsAph(), list(results), n_gt, [CAR], mode, [MODE_THR[mode]])
                    ctx.count("C04.exhaustive_rankings")
                    if L > 0:
                        ctx.check(h.ap <= a.ap + 1e-9, "C04/aph_exceeds_ap", dict(seq="".join(seq), n_gt=n_gt, ap=a.ap, aph=h.ap), "Ap")
                    ctx.case(("exh", str(mode), L, min(n_gt, L + 1), "".join(sorted(set(seq)))), nontrivial=L > 0 and n_gt > 0, sample=dict(seq="".join(seq), n_gt=n_gt, mode=str(mode), ap=a.ap, aph=h.ap) if idx in (40, 400, 3000) and n_gt == 2 else None)
        else:
            continue
        break
    ctx.exhaustive[f"rankings_len<={max_len}_kinds={''.join(kinds)}"] = complete


def random_rankings(ctx: Ctx, n: int) -> None:
    kinds = ["T", "H", "Q", "F", "L", "U", "I"]
    for idx in ctx.indices("random_rankings", n):
        r = ctx.rng("random_rankings", idx)
        L = r.choice([1, 2, 5, 20, 80, 400]) if r.random() < 0.6 else r.randint(1, 120)
        with_ties = r.random() < 0.3
        mix = [r.random() for _ in kinds]
        seq = r.choices(kinds, weights=mix, k=L)
        results = []
        for p, k in enumerate(seq):
            conf = round(r.random(), 2 if with_ties else 9)
            results.append(make_result(k, conf, p))
        if not with_ties:
            seen = set()
            for x in results:
                while x.estimated_object.semantic_score in seen:
                    x.estimated_object.semantic_score += 1e-7
                seen.add(x.estimated_object.semantic_score)
        n_tp = sum(1 for k in seq if k in "THQ")
        n_gt = r.choice([0, n_tp, n_tp, n_tp + r.randint(0, 5), max(0, n_tp - 1), r.randint(0, L + 3)])
        mode = r.choice(list(MatchingMode))
        ctx.begin_case("random_rankings", idx, L=L, n_gt=n_gt, mode=str(mode), ties=with_ties)
        nested = r.random() < 0.5
        def arg():
            if not nested:
                return list(results)
            cut = sorted(r.sample(range(L + 1), min(L + 1, 3)))
            return [results[: cut[0]]] + [results[cut[i] : cut[i + 1]] for i in range(len(cut) - 1)] + [results[cut[-1] :]]
        a = Ap(TPMetricsAp(), arg(), n_gt, [CAR], mode, [MODE_THR[mode]])
        h = Ap(TPMetricsAph(), arg(), n_gt, [CAR], mode, [MODE_THR[mode]])
        if not with_ties:
            ctx.check(h.ap <= a.ap + 1e-9, "C04/aph_exceeds_ap", dict(L=L, n_gt=n_gt, ap=a.ap, aph=h.ap), "Ap")
        ctx.case(("rnd", str(mode), min(L, 50) // 10, "gt0" if n_gt == 0 else ("gt<tp" if n_gt < n_tp else "ok"), with_ties, nested), nontrivial=n_gt > 0, sample=dict(L=L, n_gt=n_gt, mode=str(mode), ap=a.ap, aph=h.ap) if idx < 3 else None)


def run(ctx: Ctx) -> None:
    from ..frames import run_direct_frames, run_direct_frames_2d
    from ..scenario import run_manager_scenarios

    with Taps(ctx) as taps:
        apmodel.install_ap_taps(taps, ctx)
        if ctx.quick:
            exhaustive(ctx, 5, ["T", "H", "F", "U", "I"], [MatchingMode.CENTERDISTANCE])
            exhaustive(ctx, 3, KINDS_Q, [MatchingMode.PLANEDISTANCE, MatchingMode.IOU2D, MatchingMode.IOU3D])
        else:
            exhaustive(ctx, 7, KINDS_Q, [MatchingMode.CENTERDISTANCE])
            exhaustive(ctx, 5, KINDS_Q, [MatchingMode.PLANEDISTANCE, MatchingMode.IOU2D, MatchingMode.IOU3D])
        random_rankings(ctx, 300 if ctx.quick else 20000)
        # thresholds of exactly zero are values, not "unset": IoU > 0 beats an IoU threshold of 0 ("any overlap counts"),
        # nothing beats a distance threshold of 0. Judged by the Ap tap against the reference model.
        for idx in ctx.indices("zero_thresholds", 24 if ctx.quick else 600):
            r = ctx.rng("zero_thresholds", idx)
            L = r.randint(1, 8)
            seq = r.choices(["T", "H", "Q", "F", "U"], weights=[4, 2, 2, 2, 1], k=L)
            results = [make_result(k, round(0.97 - 0.05 * p - r.uniform(0, 0.02), 6), p) for p, k in enumerate(seq)]
            mode = list(MatchingMode)[idx % len(list(MatchingMode))]
            n_gt = sum(1 for k in seq if k in "THQF") + r.randint(0, 1)
            ctx.begin_case("zero_thresholds", idx, seq="".join(seq), mode=str(mode), n_gt=n_gt)
            with ctx.case_guard("zero_thresholds"):
                ctx.count("C04.zero_threshold_rankings")
                Ap(TPMetricsAp(), list(results), n_gt, [CAR], mode, [0.0])
                Ap(TPMetricsAph(), list(results), n_gt, [CAR], mode, [0.0])
                Ap(TPMetricsAp(), list(results), n_gt, [CAR], mode, [0])
                ctx.case(("zero_threshold", str(mode), min(L, 3)), nontrivial=True)
        def recompute(run, scene):
            labels = list(run.manager.target_labels)
            for k, fr in enumerate(run.results):
                apmodel.judge_detection_against_frames(ctx, fr.metrics_score, [fr], labels, "C04/frame_score_not_score_of_the_frames_own_results", "frame_metrics", dict(frame=k, task=run.scn.task, frame_id=run.frame_id))
            apmodel.judge_detection_against_frames(ctx, scene, run.results, labels, "C04/scene_score_not_score_of_pooled_results", "scene_metrics", dict(task=run.scn.task, frame_id=run.frame_id))

        run_manager_scenarios(ctx, "scenario", 60 if ctx.quick else 3000, after=recompute)
        run_direct_frames(ctx, "direct_frames", 100 if ctx.quick else 6000)
        run_direct_frames_2d(ctx, "direct_frames_2d", 60 if ctx.quick else 3000)
        ctx.notes["taps"] = taps.installed
