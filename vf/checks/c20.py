"""C20 - configuration strings parse to the enum member they name."""
from __future__ import annotations

import random
from typing import Any, Callable, Dict, List, Tuple

from shapely.geometry import Polygon

from perception_eval.common.evaluation_task import EvaluationTask
from perception_eval.common.label import LabelConverter
from perception_eval.common.schema import FrameID, SensorModality, Visibility
from perception_eval.common.shape import Shape, ShapeType
from perception_eval.common.transform import HomogeneousMatrix, TransformDict, TransformKey
from perception_eval.evaluation.matching import MatchingLabelPolicy

from ..core import Ctx, Taps, guarded

LEVEL_TEXT = (
    "Held on every parse executed under the monitor: the six string-accepting constructors are tapped; every return value must "
    "be a member of the enum (identity with the named member for member strings, the documented fallback or a rejection for any "
    "other string). The member space is finite and enumerated completely (all members of EvaluationTask, FrameID, Visibility, "
    "SensorModality, ShapeType, MatchingLabelPolicy, documented case variants); non-member strings are sampled; every "
    "enum-or-string call site (Shape, TransformKey, HomogeneousMatrix, TransformDict keys, LabelConverter task, FrameID.from_task, "
    "evaluation configuration frame id) is executed with both spellings and compared."
)
LEVEL_NOTE = "Any exception counts as a rejection; Visibility's documented fallback is the alias table v0-40..v80-100 and UNAVAILABLE otherwise."
TECHNIQUE = "runtime monitoring: taps on the six from_value/from_str parsers + exhaustive member enumeration + two-spelling comparison of enum-or-string call sites"
RULE = (
    "exhaustive over all members of the six enums (value, documented upper/lower-case variants) plus 300 (quick) / 2000 "
    "(thorough) non-member strings per parser (near-misses of member values and names, empty, unicode); call sites executed "
    "with the string and the enum spelling; lists / dictionaries of 0..5 task names (any order, repeats, an occasional "
    "non-member) through set_task_lists / set_task_dict; non-trivial = member string or alias; distinct = (parser, input class, member)"
    " Later additions: alias-shaped visibility strings; upper-case and from_matrix spellings of HomogeneousMatrix frames; task lists / dictionaries."
)
ASSUMPTIONS = ["inputs are str", "a raised exception of any type is a rejection"]
DECIDING = ["parser.member_checked", "parser.nonmember_checked", "C20.shape_sites", "C20.transform_key_sites", "C20.other_sites", "C20.task_helper_sites"]
JOBS = {"quick": 1, "thorough": 4}

VIS_ALIAS = {"v0-40": Visibility.NONE, "v40-60": Visibility.PARTIAL, "v60-80": Visibility.MOST, "v80-100": Visibility.FULL}

PARSERS: List[Tuple[str, Any, str, bool, bool]] = [
    # (name, enum, method, accepts upper-case value, accepts lower-case value of an upper-case valued enum)
    ("EvaluationTask", EvaluationTask, "from_value", False, False),
    ("FrameID", FrameID, "from_value", True, False),
    ("Visibility", Visibility, "from_value", False, False),
    ("SensorModality", SensorModality, "from_value", False, False),
    ("ShapeType", ShapeType, "from_value", False, False),
    ("MatchingLabelPolicy", MatchingLabelPolicy, "from_str", True, True),
]


def install(taps: Taps, ctx: Ctx) -> None:
    for name, enum, meth, _, _ in PARSERS:
        def factory(orig, name=name, enum=enum):
            def parse(cls, *args, **kwargs):
                s = args[0] if args else next(iter(kwargs.values()), None)
                try:
                    out = orig(cls, *args, **kwargs)
                except Exception:
                    ctx.count(f"{name}.parse_rejected")
                    raise
                ctx.count("parser.calls")
                ctx.check(isinstance(out, enum), "C20/parser_returned_non_member", dict(parser=name, input=s, returned=repr(out)[:80], type=type(out).__name__), f"{name}.parse")
                return out

            return parse

        taps.method(enum, meth, factory, tapname=f"{name}.parse")


def member_strings(name: str, enum: Any, up: bool, low: bool, m: Any) -> List[str]:
    v = m.value
    out = [v]
    if up:
        out.append(v.upper())
    if low:
        out.append(v.lower())
    if name == "FrameID":
        out.append(v.title())
    return list(dict.fromkeys(out))


def is_member_spelling(name: str, enum: Any, s: str) -> bool:
    vals = {m.value for m in enum}
    if name == "FrameID":
        return s.lower() in vals
    if name == "MatchingLabelPolicy":
        return s.upper() in enum.__members__
    return s in vals


def run(ctx: Ctx) -> None:
    with Taps(ctx) as taps:
        install(taps, ctx)
        # ------------------------------------------------------------ members (exhaustive)
        for name, enum, meth, up, low in PARSERS:
            parse = getattr(enum, meth)
            for m in enum:
                # every spelling also as a string object of its own (as read from a file / built at run time), not the
                # very object held by the enum
                spellings = [x for s0 in member_strings(name, enum, up, low, m) for x in (s0, "".join(list(s0)))]
                for s in spellings:
                    ctx.begin_case("members", 0, parser=name, input=s)
                    ctx.count("parser.member_checked")
                    try:
                        got = parse(s)
                    except Exception as e:
                        ctx.violation("C20/member_string_rejected", dict(parser=name, input=s, member=str(m), error=f"{type(e).__name__}: {str(e)[:100]}"), tap=f"{name}.parse")
                        continue
                    ctx.check(got is m, "C20/member_string_not_parsed_to_member", dict(parser=name, input=s, member=repr(m), got=repr(got)[:80]), f"{name}.parse")
                    ctx.case((name, "member", m.name, s == m.value), nontrivial=True, sample=dict(parser=name, input=s, got=repr(got)) if (name, m.name) in (("Visibility", "FULL"), ("FrameID", "RADAR_BACK")) else None)
            ctx.exhaustive[f"{name}_members"] = True
        for alias, member in VIS_ALIAS.items():
            ctx.begin_case("members", 0, parser="Visibility", input=alias)
            got = None
            try:
                got = Visibility.from_value(alias)
            except Exception:
                pass
            ctx.check(got is member, "C20/visibility_alias_not_documented_member", dict(alias=alias, got=repr(got)), "Visibility.parse")
            ctx.case(("Visibility", "alias", alias), nontrivial=True)

        # ------------------------------------------------------------ non-member strings
        n = 300 if ctx.quick else 40000
        for name, enum, meth, up, low in PARSERS:
            parse = getattr(enum, meth)
            pool = [m.value for m in enum] + [m.name for m in enum] + (list(VIS_ALIAS) if name == "Visibility" else [])
            for i in ctx.indices(f"nonmember_{name}", n):
                r = ctx.rng(f"nonmember_{name}", i)
                base = r.choice(pool)
                kind = r.choice(["space", "trunc", "name", "upper", "title", "empty", "unicode", "random", "double"])
                s = {
                    "space": base + " ",
                    "trunc": base[:-1],
                    "name": base.upper() if base.islower() else base.lower(),
                    "upper": base.upper(),
                    "title": base.title(),
                    "empty": r.choice(["", " "]),
                    "unicode": base + r.choice(["é", "ß", "İ"]),
                    "random": "".join(r.choice("abcdefghijklmnopqrstuvwxyz_ -0123456789") for _ in range(r.randint(1, 16))),
                    "double": base + base,
                }[kind]
                if name == "Visibility" and i % 4 == 0:
                    # strings of the alias shape that are not one of the four documented bins
                    kind = "alias_shaped"
                    nums = ["0", "10", "20", "40", "50", "60", "80", "90", "100", "120", "040", "00"]
                    s = r.choice(["v", "v", "v", "V", ""]) + r.choice(nums) + r.choice(["-", "-", "-", "_", "~"]) + r.choice(nums)
                if is_member_spelling(name, enum, s) or (name == "Visibility" and s in VIS_ALIAS):
                    continue
                ctx.begin_case(f"nonmember_{name}", i, parser=name, input=s)
                ctx.count("parser.nonmember_checked")
                try:
                    got = parse(s)
                except Exception:
                    ctx.case((name, "nonmember_rejected", kind), nontrivial=False)
                    continue
                if name == "Visibility":
                    ctx.check(got is Visibility.UNAVAILABLE, "C20/non_member_string_not_rejected_nor_fallback", dict(parser=name, input=s, got=repr(got)[:80]), f"{name}.parse")
                else:
                    ctx.violation("C20/non_member_string_not_rejected_nor_fallback", dict(parser=name, input=s, got=repr(got)[:80]), tap=f"{name}.parse")
                ctx.case((name, "nonmember_fallback", kind), nontrivial=False)

        # ------------------------------------------------------------ enum-or-string call sites
        for m in ShapeType:
            size = (1.2, 3.4, 1.5)
            fp = Polygon([(1, 1, 0), (-1, 1, 0), (-1, -1, 0), (1, -1, 0)]) if m == ShapeType.POLYGON else None
            ctx.begin_case("sites", 0, site="Shape", member=m.value)
            ctx.count("C20.shape_sites")
            try:
                a = Shape(m, size, fp)
                b = Shape(m.value, size, fp)
            except Exception as e:
                ctx.violation("C20/string_spelling_rejected_where_enum_accepted", dict(site="Shape", member=m.value, error=f"{type(e).__name__}: {str(e)[:120]}"), tap="Shape")
                continue
            ok = (b.type is a.type) and (b.type == a.type) and list(a.footprint.exterior.coords) == list(b.footprint.exterior.coords) and a.size == b.size and isinstance(b.type, ShapeType)
            ctx.check(ok, "C20/string_and_enum_spelling_behave_differently", dict(site="Shape", member=m.value, type_a=repr(a.type), type_b=repr(b.type)), "Shape")
            ctx.case(("site", "Shape", m.name), nontrivial=True)
        frames = list(FrameID)
        for a in frames:
            for b in frames[:: 3 if ctx.quick else 1]:
                ctx.begin_case("sites", 0, site="TransformKey", src=a.value, dst=b.value)
                ctx.count("C20.transform_key_sites")
                try:
                    k_enum, k_str, k_mix, k_up = TransformKey(a, b), TransformKey(a.value, b.value), TransformKey(a, b.value), TransformKey(a.value.upper(), b.value.upper())
                except Exception as e:
                    ctx.violation("C20/string_spelling_rejected_where_enum_accepted", dict(site="TransformKey", src=a.value, dst=b.value, error=f"{type(e).__name__}: {str(e)[:120]}"), tap="TransformKey")
                    continue
                same = all(k == k_enum and hash(k) == hash(k_enum) and k.src is a and k.dst is b for k in (k_str, k_mix, k_up))
                ctx.check(same, "C20/string_and_enum_spelling_behave_differently", dict(site="TransformKey", src=a.value, dst=b.value), "TransformKey")
                ctx.check(k_enum == (a.value, b.value) and k_enum == (a, b), "C20/string_and_enum_spelling_behave_differently", dict(site="TransformKey.__eq__(tuple)", src=a.value, dst=b.value), "TransformKey")
                if a is not b:
                    hm_e = HomogeneousMatrix((1.0, 2.0, 3.0), (1.0, 0.0, 0.0, 0.0), src=a, dst=b)
                    try:
                        hm_s = HomogeneousMatrix((1.0, 2.0, 3.0), (1.0, 0.0, 0.0, 0.0), src=a.value, dst=b.value)
                        td = TransformDict([hm_s])
                        found = td.get((a, b)) is hm_s and td.get((a.value, b.value)) is hm_s and td[(a.value, b)] is hm_s
                        ctx.check(hm_s.src is hm_e.src and hm_s.dst is hm_e.dst and found, "C20/string_and_enum_spelling_behave_differently", dict(site="HomogeneousMatrix/TransformDict", src=a.value, dst=b.value), "TransformKey")
                    except Exception as e:
                        ctx.violation("C20/string_spelling_rejected_where_enum_accepted", dict(site="HomogeneousMatrix/TransformDict", src=a.value, dst=b.value, error=f"{type(e).__name__}: {str(e)[:120]}"), tap="TransformKey")
                    # the same for the upper-case spelling FrameID documents, and for the matrix constructor
                    for how in ("upper", "from_matrix", "from_matrix_upper"):
                        sa, sb = (a.value.upper(), b.value.upper()) if how.endswith("upper") else (a.value, b.value)
                        ctx.count("C20.homogeneous_matrix_spellings")
                        try:
                            hm_u = HomogeneousMatrix((1.0, 2.0, 3.0), (1.0, 0.0, 0.0, 0.0), src=sa, dst=sb) if how == "upper" else HomogeneousMatrix.from_matrix(hm_e.matrix.copy(), src=sa, dst=sb)
                            ctx.check(hm_u.src is a and hm_u.dst is b, "C20/string_and_enum_spelling_behave_differently", dict(site=f"HomogeneousMatrix[{how}]", src=sa, dst=sb, got=[repr(hm_u.src), repr(hm_u.dst)]), "TransformKey")
                        except Exception as e:
                            ctx.violation("C20/string_spelling_rejected_where_enum_accepted", dict(site=f"HomogeneousMatrix[{how}]", src=sa, dst=sb, error=f"{type(e).__name__}: {str(e)[:120]}"), tap="TransformKey")
                ctx.case(("site", "TransformKey", a.name, b.name), nontrivial=True)
        for t in EvaluationTask:
            ctx.begin_case("sites", 0, site="LabelConverter/from_task", task=t.value)
            ctx.count("C20.other_sites")
            try:
                c1, c2 = LabelConverter(t, False, "autoware"), LabelConverter(t.value, False, "autoware")
                ctx.check(c1.evaluation_task is c2.evaluation_task, "C20/string_and_enum_spelling_behave_differently", dict(site="LabelConverter", task=t.value), "sites")
            except Exception as e:
                ctx.violation("C20/string_spelling_rejected_where_enum_accepted", dict(site="LabelConverter", task=t.value, error=f"{type(e).__name__}: {str(e)[:120]}"), tap="sites")
            r1 = r2 = None
            try:
                r1 = FrameID.from_task(t)
            except Exception as e:
                r1 = type(e).__name__
            try:
                r2 = FrameID.from_task(t.value)
            except Exception as e:
                r2 = type(e).__name__
            ctx.check(r1 is r2 or r1 == r2, "C20/string_and_enum_spelling_behave_differently", dict(site="FrameID.from_task", task=t.value, enum=repr(r1), string=repr(r2)), "sites")
            ctx.case(("site", "task", t.name), nontrivial=True)
        # ------------------------------------------------------------ the dataset loader as a string-accepting site of Visibility
        # (visibility.json may name the level by the member's own value or by the documented alias)
        from perception_eval.common import dataset as ds_mod
        from perception_eval.common.label import LabelConverter as _LC

        from ..gen import dataset as D

        for style, table in D.VIS_TABLES.items():
            ctx.begin_case("sites", 0, site="load_all_datasets/visibility", style=style)
            with ctx.case_guard("sites"):
                anns = [D.Ann(inst=f"i{k}", category="car", pos=(5.0 + 3 * k, 1.0, 0.0), yaw=0.1, size=(1.9, 4.5, 1.6), vis=tok_) for k, tok_ in enumerate(table)]
                spec = D.SceneSpec(samples=[D.Sample(t=1_600_000_000_000_000, ego_pos=(0.0, 0.0, 0.0), ego_yaw=0.0, anns=anns)], vis_style=style)
                with D.DatasetDir(spec) as dsd:
                    frames = ds_mod.load_all_datasets(dataset_paths=[dsd.root], evaluation_task=EvaluationTask.DETECTION, label_converter=_LC(EvaluationTask.DETECTION, False, "autoware"), frame_id=FrameID.BASE_LINK, load_raw_data=False)
                got = {o.uuid: o.visibility for o in frames[0].objects}
                for k, (tok_, level) in enumerate(table.items()):
                    want = Visibility(D.VIS_EXPECT[level])
                    ctx.count("C20.loader_visibility_sites")
                    ctx.check(got.get(f"i{k}") is want, "C20/member_string_not_parsed_to_member", dict(site="load_all_datasets/visibility", level=level, got={str(u): repr(v) for u, v in got.items()}, expected=repr(want)), "Visibility.parse")
                ctx.case(("site", "loader_visibility", style), nontrivial=True)
        # ------------------------------------------------------------ task-name helpers (lists and dictionaries of task names)
        from perception_eval.common import evaluation_task as et

        by_value = {m.value: m for m in EvaluationTask}
        for m in EvaluationTask:
            ctx.begin_case("task_helpers", 0, fn="set_task", input=m.value)
            ctx.count("C20.task_helper_sites")
            got = None
            try:
                got = et.set_task(m.value)
            except Exception as e:  # noqa: BLE001
                got = f"{type(e).__name__}"
            ctx.check(got is m, "C20/member_string_not_parsed_to_member", dict(site="set_task", input=m.value, got=repr(got)), "sites")
        for i in ctx.indices("task_lists", 400 if ctx.quick else 20000):
            r = ctx.rng("task_lists", i)
            k = r.randint(0, 5)
            names = [r.choice(list(by_value)) for _ in range(k)]
            if r.random() < 0.3 and names:
                names[r.randrange(len(names))] = r.choice(["", "Detection", "tracking ", "sensing3d", "DETECTION"])
            if r.random() < 0.3:
                r.shuffle(names)
            ctx.begin_case("task_lists", i, names=names)
            ctx.count("C20.task_helper_sites")
            want = [by_value[n] for n in names if n in by_value]
            try:
                got_l = et.set_task_lists(list(names))
            except Exception:  # noqa: BLE001
                got_l = None
            if got_l is not None or all(n in by_value for n in names):
                ctx.check(
                    got_l is not None and len(got_l) == len(want) and all(a is b for a, b in zip(got_l, want)),
                    "C20/task_name_list_not_parsed_member_by_member",
                    dict(names=names, got=repr(got_l), expected=repr(want)),
                    "sites",
                )
            items = {n: {"id": j} for j, n in enumerate(names)}
            given = dict(items)
            try:
                got_d = et.set_task_dict(given)
            except Exception:  # noqa: BLE001
                got_d = None
            # parsing reads the caller's dictionary: the same dictionary parses alike a second time
            try:
                again_d = et.set_task_dict(given)
            except Exception:  # noqa: BLE001
                again_d = None
            same_again = (got_d is None and again_d is None) or (got_d is not None and again_d is not None and [(k_, id(v_)) for k_, v_ in got_d.items()] == [(k_, id(v_)) for k_, v_ in again_d.items()])
            ctx.check(list(given.items()) == list(items.items()) and same_again, "C20/parsing_task_names_consumes_the_callers_dictionary", dict(names=names, left=list(given), first=repr(got_d)[:120], second=repr(again_d)[:120]), "sites")
            if got_d is not None or all(n in by_value for n in names):
                want_pairs = [(by_value[n], v) for n, v in items.items() if n in by_value]  # the oracle never hashes a member
                got_pairs = list(got_d.items()) if got_d is not None else None
                ctx.check(
                    got_pairs is not None and len(got_pairs) == len(want_pairs) and all(a[0] is b[0] and a[1] is b[1] for a, b in zip(got_pairs, want_pairs)),
                    "C20/task_name_dict_not_parsed_member_by_member",
                    dict(names=names, got=repr(got_d)[:200]),
                    "sites",
                )
            ordered = names == sorted(names, key=lambda n: list(by_value).index(n) if n in by_value else -1)
            ctx.case(("task_list", min(len(names), 3), "declaration_order" if ordered else "other_order", len(set(names)) < len(names)), nontrivial=len(names) > 1)
        # evaluation configuration: frame id given as str (lower / upper)
        from perception_eval.config import PerceptionEvaluationConfig

        from ..frames import scratch_dir

        base_cfg = {"evaluation_task": "detection", "target_labels": ["car"], "label_prefix": "autoware", "max_x_position": 100.0, "max_y_position": 100.0, "min_point_numbers": 0, "center_distance_thresholds": [1.0]}
        for f in (FrameID.BASE_LINK, FrameID.MAP):
            for s in (f.value, f.value.upper()):
                ctx.count("C20.other_sites")
                try:
                    cfg = PerceptionEvaluationConfig(dataset_paths=[], frame_id=s, result_root_directory=scratch_dir(), evaluation_config_dict=dict(base_cfg))
                    ctx.check(cfg.frame_ids == [f] and cfg.frame_ids[0] is f, "C20/member_string_not_parsed_to_member", dict(site="PerceptionEvaluationConfig.frame_id", input=s, got=repr(cfg.frame_ids)), "sites")
                except Exception as e:
                    ctx.violation("C20/member_string_rejected", dict(site="PerceptionEvaluationConfig.frame_id", input=s, error=f"{type(e).__name__}: {str(e)[:120]}"), tap="sites")
        ctx.notes["taps"] = taps.installed
