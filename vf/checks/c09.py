"""C09 - heading comparisons use the true minimal yaw difference."""
from __future__ import annotations

import math
from typing import Any, Dict, Tuple

from perception_eval.common import object as object_mod
from perception_eval.evaluation import DynamicObjectWithPerceptionResult
from perception_eval.evaluation.matching import MatchingLabelPolicy
from perception_eval.evaluation.metrics.detection import tp_metrics as tpm

from ..core import Ctx, Taps, close, guarded
from ..gen import objects as O
from ..oracles import geometry as G

LEVEL_TEXT = (
    "Held on every heading comparison made under the monitor: TPMetricsAph.get_value and DynamicObject.get_heading_error are "
    "tapped and their results compared with 1 - d/pi resp. a signed error of magnitude d in [-pi, pi], where d is the minimal "
    "yaw difference computed by the oracle from its own rotation matrices; symmetry, quaternion-sign independence and frame "
    "independence are decided by second executions on swapped / negated / map-rendered copies. Yaw pairs are driven over a "
    "lattice covering (-pi, pi]^2 (both quaternion signs, ego and map renderings with several ego yaws), random pairs and "
    "small roll/pitch variants."
)
LEVEL_NOTE = "Yaw is the ZYX (yaw-pitch-roll) yaw of the orientation; roll/pitch are kept <= 0.05 rad."
TECHNIQUE = "runtime monitoring: taps on TPMetricsAph.get_value / get_heading_error / get_heading_bev + own yaw algebra; metamorphic executions (swap, -q, map frame)"
RULE = (
    "lattice of yaw pairs (30 deg quick / 5 deg thorough) over (-pi, pi]^2 x quaternion signs (+,+),(+,-),(-,+),(-,-) in the ego "
    "frame, the same lattice rendered in the map frame for 3 (quick) / 12 (thorough) ego yaws, random pairs incl. exact 0/pi "
    "differences and small roll/pitch; non-trivial = pair with non-zero yaw difference; distinct = (frame, sign combo, "
    "quadrant of est yaw, quadrant of gt yaw, |d| bucket)"
    " Later additions: orientations stored un-normalised (half, double, rounded); literal half-turn quaternions; every class and POLYGON shapes; label policies."
)
ASSUMPTIONS = ["roll and pitch <= 0.05 rad; for tilted boxes the yaw is convention dependent to second order, tolerance 2*tilt^2", "yaw-only boxes: weight tolerance 1e-9, error tolerance 1e-9"]
DECIDING = ["TPMetricsAph.get_value.checked", "get_heading_error.checked", "C09.negative_yaw_ego_pairs", "C09.sign_checked", "C09.frame_checked", "C09.symmetry_checked", "C09.derived_checked", "C09.result_object_checked", "C09.label_policy_checked", "C09.ap_tp_lists_checked", "C09.polygon_shapes_checked", "C09.classes_checked", "C09.unnormalised_checked"]
JOBS = {"quick": 2, "thorough": 14}


def yaw_of(o: Any) -> float:
    return O.box_of(o)[3]


def tilt_of(o: Any) -> float:
    q = o.state.orientation
    m = G.quat_to_matrix((q.w, q.x, q.y, q.z))
    return math.acos(max(-1.0, min(1.0, float(m[2, 2]))))


def yaw_tol(*objs: Any) -> float:
    """With roll/pitch the 'yaw angle' is convention dependent to second order in the tilt: tolerate 2*tilt^2."""
    t = sum(tilt_of(o) for o in objs)
    return 1e-9 + 2.0 * t * t


def install(taps: Taps, ctx: Ctx) -> None:
    def value_factory(orig):
        def get_value(self, object_result):
            v = orig(self, object_result)

            def j():
                e, g = object_result.estimated_object, object_result.ground_truth_object
                if g is None:
                    ctx.check(v == 0.0, "C09/aph_weight_without_gt_not_zero", dict(v=v), "TPMetricsAph.get_value")
                    return
                d = G.yaw_diff_abs(yaw_of(e), yaw_of(g))
                ctx.check(close(float(v), 1.0 - d / math.pi, yaw_tol(e, g), 0), "C09/aph_weight_not_1_minus_d_over_pi", dict(value=v, expected=1.0 - d / math.pi, est=O.describe(e), gt=O.describe(g)), "TPMetricsAph.get_value")
                ctx.check(0.0 <= v <= 1.0, "C09/aph_weight_outside_unit_interval", dict(value=v), "TPMetricsAph.get_value")

            guarded(ctx, "TPMetricsAph.get_value", j)
            return v

        return get_value

    taps.method(tpm.TPMetricsAph, "get_value", value_factory)

    def err_factory(orig):
        def get_heading_error(self, other):
            out = orig(self, other)
            if other is None or out is None:
                return out

            def j():
                d = G.yaw_diff_abs(yaw_of(self), yaw_of(other))
                yaw_err = float(out[2])
                info = dict(error=[float(x) for x in out], expected_magnitude=d, self_yaw=yaw_of(self), other_yaw=yaw_of(other))
                ctx.check(-math.pi - 1e-9 <= yaw_err <= math.pi + 1e-9, "C09/yaw_error_outside_pm_pi", info, "get_heading_error")
                ctx.check(close(abs(yaw_err), d, yaw_tol(self, other), 0), "C09/yaw_error_magnitude_not_minimal_difference", info, "get_heading_error")

            guarded(ctx, "get_heading_error", j)
            return out

        return get_heading_error

    taps.method(object_mod.DynamicObject, "get_heading_error", err_factory, tapname="get_heading_error")

    def bev_factory(orig):
        def get_heading_bev(self, *a, **k):
            ctx.count("get_heading_bev.calls")
            return orig(self, *a, **k)

        return get_heading_bev

    taps.method(object_mod.DynamicObject, "get_heading_bev", bev_factory, tapname="get_heading_bev")


APH = tpm.TPMetricsAph()


def pair(ye: float, yg: float, neg_e: bool, neg_g: bool, frame: str, ego_yaw: float = 0.0, roll: float = 0.0, pitch: float = 0.0) -> Tuple[Any, Any]:
    e = O.obj3d(3.0, 1.0, 0.0, ye, negate_q=neg_e, roll=roll, pitch=pitch)
    g = O.obj3d(3.2, 1.1, 0.0, yg, negate_q=neg_g)
    if frame == "map":
        ego = (EGO, ego_yaw)
        e, g = O.to_map(e, *ego), O.to_map(g, *ego)
        if neg_e:
            e.state.orientation = -e.state.orientation
        if neg_g:
            g.state.orientation = -g.state.orientation
    return e, g


EGO = (120.0, -45.0, 1.0)


def weight(e: Any, g: Any, ego_yaw: float = 0.0) -> float:
    tr = O.transforms_for(EGO, ego_yaw) if O.frame_of(e) == "map" else None
    return APH.get_value(DynamicObjectWithPerceptionResult(e, g, MatchingLabelPolicy.DEFAULT, transforms=tr))


def ap_tp_list_clause(ctx: Ctx, workload: str, idx: int, r) -> None:
    """Ap.tp_list with TPMetricsAph: the cumulative TP list adds, in confidence order, each TP's OWN heading weight -
    also when results that are not scored for this label (paired with a ground truth of another label) rank in between."""
    from perception_eval.common.label import AutowareLabel
    from perception_eval.evaluation.matching import MatchingMode
    from perception_eval.evaluation.metrics.detection.ap import Ap

    n = r.randint(2, 6)
    results, expect = [], []
    for k in range(n):
        ye, yg = r.uniform(-math.pi, math.pi), r.uniform(-math.pi, math.pi)
        conf = round(0.95 - 0.1 * k + r.uniform(0, 0.05), 4)
        foreign = r.random() < 0.35  # estimate 'car' paired with a pedestrian ground truth: not scored in the car AP
        e = O.obj3d(3.0 + 10 * k, 1.0, 0.0, ye, lab="car", score=conf, negate_q=r.random() < 0.5)
        g = O.obj3d(3.1 + 10 * k, 1.0, 0.0, yg, lab="pedestrian" if foreign else "car", negate_q=r.random() < 0.5)
        if idx % 4 == 0:
            e.semantic_score = 1  # a confidence written as an integer (a detector without scores: every result "1")
        results.append(DynamicObjectWithPerceptionResult(e, g, MatchingLabelPolicy.DEFAULT))
        expect.append(None if foreign else 1.0 - G.yaw_diff_abs(ye, yg) / math.pi)
    ctx.begin_case(workload, idx, clause="ap_tp_list", n=n)
    if idx % 4 == 0:
        # equal confidences: the ranking among them is open, the sum of the heading weights is not
        ap = Ap(APH, list(results), sum(1 for w in expect if w is not None), [AutowareLabel.CAR], MatchingMode.CENTERDISTANCE, [5.0])
        total = sum(w for w in expect if w is not None)
        got_total = float(ap.tp_list[-1]) if len(ap.tp_list) else 0.0
        ctx.count("C09.ap_tp_lists_checked")
        ctx.count("C09.integer_confidence_lists")
        ctx.check(abs(got_total - total) <= 1e-9, "C09/tp_list_not_cumulative_heading_weights_of_own_pairs", dict(n=n, integer_confidences=True, total=got_total, expected_total=total), "TPMetricsAph.get_value")
        return
    ap = Ap(APH, list(results), sum(1 for w in expect if w is not None), [AutowareLabel.CAR], MatchingMode.CENTERDISTANCE, [5.0])
    cum, c = [], 0.0
    for w in expect:
        c += 0.0 if w is None else w
        cum.append(c)
    got = [float(v) for v in ap.tp_list]
    ctx.count("C09.ap_tp_lists_checked")
    ok = len(got) == len(cum) and all(abs(a - b) <= 1e-9 for a, b in zip(got, cum))
    ctx.check(ok, "C09/tp_list_not_cumulative_heading_weights_of_own_pairs", dict(n=n, foreign=[w is None for w in expect], tp_list=got, expected=cum), "TPMetricsAph.get_value")


def quadrant(y: float) -> int:
    return int(((y + math.pi) % (2 * math.pi)) // (math.pi / 2))


def one(ctx: Ctx, workload: str, idx: int, ye: float, yg: float, ego_yaws, roll: float = 0.0, pitch: float = 0.0) -> None:
    ctx.begin_case(workload, idx, est_yaw=ye, gt_yaw=yg, roll=roll, pitch=pitch)
    e0, g0 = pair(ye, yg, False, False, "base_link", roll=roll, pitch=pitch)
    base = weight(e0, g0)
    d = G.yaw_diff_abs(yaw_of(e0), yaw_of(g0))
    tol = yaw_tol(e0, g0)
    tilted = bool(roll or pitch)
    if G.wrap_pi(ye) < 0 or G.wrap_pi(yg) < 0:
        ctx.count("C09.negative_yaw_ego_pairs")
    # symmetry
    ctx.count("C09.symmetry_checked")
    ctx.check(close(weight(g0, e0), base, tol, 0), "C09/aph_weight_not_symmetric", dict(est_yaw=ye, gt_yaw=yg, a=base, b=weight(g0, e0)), "TPMetricsAph.get_value")
    # quaternion sign convention
    for ne, ng in ((True, False), (False, True), (True, True)):
        e, g = pair(ye, yg, ne, ng, "base_link", roll=roll, pitch=pitch)
        ctx.count("C09.sign_checked")
        ctx.check(close(weight(e, g), base, tol, 0), "C09/aph_weight_depends_on_quaternion_sign", dict(est_yaw=ye, gt_yaw=yg, neg=(ne, ng), a=base, b=weight(e, g)), "TPMetricsAph.get_value")
        he = e.get_heading_error(g)
        ctx.check(close(abs(he[2]), d, tol, 0), "C09/yaw_error_depends_on_quaternion_sign", dict(est_yaw=ye, gt_yaw=yg, neg=(ne, ng), err=he[2], d=d), "get_heading_error")
    # the weight depends on the orientations only: a TP whose estimate carries another label (allowed by the pair's
    # matching policy) gets the same weight as the same-label pair
    for lab, policy in (("unknown", MatchingLabelPolicy.ALLOW_UNKNOWN), ("bus", MatchingLabelPolicy.ALLOW_ANY), ("unknown", MatchingLabelPolicy.ALLOW_ANY)):
        e_l = O.obj3d(3.0, 1.0, 0.0, ye, lab=lab, roll=roll, pitch=pitch)
        w_l = APH.get_value(DynamicObjectWithPerceptionResult(e_l, g0, policy))
        ctx.count("C09.label_policy_checked")
        ctx.check(close(w_l, base, tol, 0), "C09/aph_weight_depends_on_labels_of_a_compatible_pair", dict(est_yaw=ye, gt_yaw=yg, est_label=lab, policy=str(policy.value), same_label=base, other_label=w_l), "TPMetricsAph.get_value")
    # ... nor on how the footprint is represented: the same objects with POLYGON shapes (outline given explicitly)
    if idx % 3 == 0:
        from perception_eval.common.shape import Shape, ShapeType
        from shapely.geometry import Polygon

        def as_polygon(o):
            import copy as _copy

            w, l, h = o.state.size
            o2 = _copy.deepcopy(o)
            o2.state.shape = Shape(ShapeType.POLYGON, (w, l, h), Polygon([(l / 2, w / 2, 0), (-l / 2, w / 2, 0), (-l / 2, -w / 2, 0), (l / 2, -w / 2, 0), (l / 2, w / 2, 0)]))
            return o2

        for ep, gp in ((as_polygon(e0), g0), (e0, as_polygon(g0)), (as_polygon(e0), as_polygon(g0))):
            ctx.count("C09.polygon_shapes_checked")
            ctx.check(close(weight(ep, gp), base, tol, 0), "C09/aph_weight_depends_on_shape_representation", dict(est_yaw=ye, gt_yaw=yg, box_pair=base, with_polygon=weight(ep, gp)), "TPMetricsAph.get_value")
    # ... nor on which class the pair belongs to (same-label pairs of every class, unknown included)
    for lab in ("unknown", "pedestrian", "bus", "bicycle") if idx % 2 == 0 else ("unknown",):
        e_c = O.obj3d(3.0, 1.0, 0.0, ye, lab=lab, roll=roll, pitch=pitch)
        g_c = O.obj3d(3.2, 1.1, 0.0, yg, lab=lab)
        w_c = APH.get_value(DynamicObjectWithPerceptionResult(e_c, g_c, MatchingLabelPolicy.DEFAULT))
        ctx.count("C09.classes_checked")
        ctx.check(close(w_c, base, tol, 0), "C09/aph_weight_depends_on_the_class_of_the_pair", dict(est_yaw=ye, gt_yaw=yg, label=lab, car_pair=base, this_pair=w_c), "TPMetricsAph.get_value")
    # the error a result object reports is that of its own pair (estimate against its ground truth)
    rep = DynamicObjectWithPerceptionResult(e0, g0).heading_error
    own = e0.get_heading_error(g0)
    ctx.count("C09.result_object_checked")
    ctx.check(rep is not None and all(close(float(x), float(y), 1e-12, 0) for x, y in zip(rep, own)), "C09/result_object_reports_other_heading_error_than_its_pair", dict(est_yaw=ye, gt_yaw=yg, reported=None if rep is None else list(rep), pair=list(own)), "get_heading_error")
    # either order of the two objects
    h1, h2 = e0.get_heading_error(g0), g0.get_heading_error(e0)
    ctx.check(close(abs(h1[2]), abs(h2[2]), tol, 0), "C09/yaw_error_magnitude_depends_on_order", dict(est_yaw=ye, gt_yaw=yg, a=h1[2], b=h2[2]), "get_heading_error")
    # frame the pair is expressed in
    for k, ey in enumerate(ego_yaws):
        e, g = pair(ye, yg, bool(k & 1), bool(k & 2), "map", ego_yaw=ey, roll=roll, pitch=pitch)
        ctx.count("C09.frame_checked")
        wm = weight(e, g, ey)
        ctx.check(close(wm, base, tol, 0), "C09/aph_weight_depends_on_frame", dict(est_yaw=ye, gt_yaw=yg, ego_yaw=ey, ego=base, map=wm), "TPMetricsAph.get_value")
        he = e.get_heading_error(g)
        ctx.check(close(abs(he[2]), d, tol, 0), "C09/yaw_error_depends_on_frame", dict(est_yaw=ye, gt_yaw=yg, ego_yaw=ey, err=he[2], d=d), "get_heading_error")
    # orientations given as the literal half-turn quaternions (0, 0, 0, +-1) (w exactly 0, not cos(pi/2) ~ 6e-17), in both
    # frames and against a few partners
    from pyquaternion import Quaternion as _Q

    for frame_ in (("base_link", "map") if idx % 4 == 0 else ()):
        for sign in (1.0, -1.0):
            for partner in (ye, yg, 0.0, math.pi - 0.2):
                e_h, g_h = pair(0.0, partner, False, False, frame_, ego_yaw=0.0)
                e_h.state.orientation = _Q(0.0, 0.0, 0.0, sign)
                ctx.count("C09.literal_half_turn_checked")
                weight(e_h, g_h, 0.0)  # judged by the tap against the oracle's own yaw algebra
                weight(g_h, e_h, 0.0)
    # orientations stored un-normalised (a quaternion read from a file with a few decimals, or any positive multiple of the
    # unit quaternion): the same physical orientation. Queried on fresh objects, the yaw error first (the quaternion
    # library normalises lazily and in place, so the first query is the one that sees the stored length).
    if idx % 3 == 0 and not tilted:
        import numpy as _np

        for frame_ in ("base_link", "map"):
            for how in ("half", "double", "rounded"):
                e_s, g_s = pair(ye, yg, idx % 2 == 0, idx % 4 == 1, frame_, ego_yaw=ego_yaws[0])
                for o_ in (e_s, g_s):
                    el = _np.array(o_.state.orientation.elements, dtype=float)
                    el = el * 0.5 if how == "half" else el * 2.0 if how == "double" else _np.round(el, 2)
                    if float(_np.linalg.norm(el)) < 0.5:
                        el = _np.array(o_.state.orientation.elements, dtype=float) * 3.0
                    o_.state.orientation = _Q(el)
                ctx.count("C09.unnormalised_checked")
                e_s.get_heading_error(g_s)  # judged by the tap against the oracle's own (normalising) yaw algebra
                e_s2, g_s2 = pair(ye, yg, False, False, frame_, ego_yaw=ego_yaws[0])
                for o_ in (e_s2, g_s2):
                    o_.state.orientation = _Q(_np.array(o_.state.orientation.elements, dtype=float) * (0.5 if how == "half" else 2.0 if how == "double" else 1.25))
                weight(e_s2, g_s2, ego_yaws[0])
    if abs(d) < 1e-12 and not tilted:
        ctx.check(close(base, 1.0, 1e-9, 0), "C09/equal_headings_weight_not_one", dict(est_yaw=ye, gt_yaw=yg, w=base), "TPMetricsAph.get_value")
    if abs(d - math.pi) < 1e-12 and not tilted:
        ctx.check(close(base, 0.0, 1e-9, 0), "C09/opposite_headings_weight_not_zero", dict(est_yaw=ye, gt_yaw=yg, w=base), "TPMetricsAph.get_value")
    ctx.case(("pair", quadrant(ye), quadrant(yg), min(int(d / (math.pi / 6)), 6), bool(roll or pitch)), nontrivial=d > 1e-9, sample=dict(est_yaw=ye, gt_yaw=yg, weight=base, d=d) if idx in (7, 55) else None)


def run(ctx: Ctx) -> None:
    step = 30 if ctx.quick else 5
    n_ego = 3 if ctx.quick else 12
    ego_yaws = [-math.pi + 2 * math.pi * (k + 0.37) / n_ego for k in range(n_ego)]
    lattice = [math.radians(a) for a in range(-180 + step, 181, step)]
    with Taps(ctx) as taps:
        install(taps, ctx)
        idx = 0
        complete = True
        import time

        for ye in lattice:
            for yg in lattice:
                idx += 1
                if not ctx.mine(idx):
                    continue
                if ctx.deadline is not None and time.time() > ctx.deadline:
                    complete = False
                    ctx.inconclusive.append("watchdog:lattice")
                    break
                one(ctx, "lattice", idx, ye, yg, ego_yaws)
        ctx.exhaustive[f"yaw_lattice_{step}deg"] = complete
        for i in ctx.indices("random", 150 if ctx.quick else 60000):
            r = ctx.rng("random", i)
            ye = O.rand_yaw(r)
            k = r.random()
            yg = ye if k < 0.1 else G.wrap_pi(ye + math.pi) if k < 0.2 else G.wrap_pi(ye + r.choice([-1, 1]) * r.choice([1e-9, 1e-6, math.pi - 1e-6])) if k < 0.35 else O.rand_yaw(r)
            rp = (r.uniform(-0.05, 0.05), r.uniform(-0.05, 0.05)) if r.random() < 0.3 else (0.0, 0.0)
            one(ctx, "random", i, ye, yg, [r.uniform(-math.pi, math.pi) for _ in range(2)], roll=rp[0], pitch=rp[1])
            ap_tp_list_clause(ctx, "random", i, r)
        # ---- derived objects: the library itself copies objects and replaces their pose (frame conversion,
        # interpolation); a heading computed earlier must not leak into the derived object
        from perception_eval.common import dataset as ds_mod
        from perception_eval.common.geometry import interpolate_object_list

        for i in ctx.indices("derived", 60 if ctx.quick else 6000):
            r = ctx.rng("derived", i)
            ye, yg = O.rand_yaw(r), O.rand_yaw(r)
            ctx.begin_case("derived", i, est_yaw=ye, gt_yaw=yg)
            with ctx.case_guard("derived"):
                e0, g0 = pair(ye, yg, r.random() < 0.3, r.random() < 0.3, "base_link")
                e0.uuid, g0.uuid = "e", "g"
                base = weight(e0, g0)  # headings queried once on the originals
                # (1) ego -> map -> ego with another ego pose (library conversion helpers)
                ego_a = O.ego2map((r.uniform(-500, 500), r.uniform(-500, 500), 0.0), O.rand_yaw(r))
                ego_b = O.ego2map((r.uniform(-500, 500), r.uniform(-500, 500), 0.0), O.rand_yaw(r))
                em, gm = ds_mod.convert_objects_to_global([e0, g0], ego_a)
                from perception_eval.common.schema import FrameID

                for o in (em, gm):
                    o.frame_id = FrameID.MAP
                from perception_eval.common.transform import TransformDict

                wm = APH.get_value(DynamicObjectWithPerceptionResult(em, gm, MatchingLabelPolicy.DEFAULT, transforms=TransformDict([ego_a])))
                ctx.check(close(wm, base, 1e-7, 0), "C09/aph_weight_depends_on_frame", dict(est_yaw=ye, gt_yaw=yg, ego=base, map=wm, via="convert_objects_to_global"), "TPMetricsAph.get_value")
                eb, gb = ds_mod.convert_objects_to_base_link([em, gm], ego_b)
                for o in (eb, gb):
                    o.frame_id = FrameID.BASE_LINK
                wb = APH.get_value(DynamicObjectWithPerceptionResult(eb, gb, MatchingLabelPolicy.DEFAULT))
                ctx.check(close(wb, base, 1e-7, 0), "C09/aph_weight_depends_on_frame", dict(est_yaw=ye, gt_yaw=yg, ego=base, back=wb, via="convert_objects_to_base_link"), "TPMetricsAph.get_value")
                # (2) interpolation between two poses of the same object: the heading of the result is the interpolated one
                g1 = O.obj3d(3.0, 1.0, 0.0, yg, uuid="g", t=100)
                yg2 = G.wrap_pi(yg + r.uniform(-2.5, 2.5))
                g2 = O.obj3d(5.0, 2.0, 0.0, yg2, uuid="g", t=200)
                weight(e0, g1)
                weight(e0, g2)
                t = r.choice([100, 150, 200, r.randint(100, 200)])
                gi = interpolate_object_list([g1], [g2], 100, 200, t)[0]
                wi = APH.get_value(DynamicObjectWithPerceptionResult(e0, gi, MatchingLabelPolicy.DEFAULT))
                exp_yaw = G.yaw_of_quat(G.slerp(G.quat_from_yaw(yg), G.quat_from_yaw(yg2), (t - 100) / 100.0))
                exp_w = 1.0 - G.yaw_diff_abs(yaw_of(e0), exp_yaw) / math.pi
                ctx.check(close(wi, exp_w, 1e-5, 0), "C09/aph_weight_of_derived_object_not_from_its_own_orientation", dict(est_yaw=ye, gt_yaw_1=yg, gt_yaw_2=yg2, t=t, weight=wi, expected=exp_w), "TPMetricsAph.get_value")
                ctx.count("C09.derived_checked")
                ctx.case(("derived", quadrant(ye), quadrant(yg)), nontrivial=True)
        ctx.notes["taps"] = taps.installed
