"""C07 - evaluation results do not depend on the coordinate frame of the objects."""
from __future__ import annotations

from typing import Any, Dict, List

from .. import compare
from ..core import BOUNDARY, Ctx, Taps
from ..gen import dataset as D
from ..scenario import Run, gen_scenario

LEVEL_TEXT = (
    "Held on every pair of executions run under the comparator: one physical scenario (moving ego with translation up to 1e4 m "
    "and any yaw, ground-truth tracks, detector/tracker model) is written as a synthetic T4 dataset and evaluated twice by the "
    "real PerceptionEvaluationManager, once with every object expressed in the ego frame and once in the map frame with the "
    "ego pose supplied (a share of the map executions also negates quaternions); the two recorded runs are aligned frame by "
    "frame by object keys and compared: surviving results and critical ground truth, pair sets, per-pair scores (centre / "
    "plane distance, IoU 2D/3D), TP/FP/FN/TN lists, AP/APH/mAP and MOTA/MOTP/ID switches at frame and scene level."
)
LEVEL_NOTE = "Scenario pairs whose ego-frame description has any decision (bound, threshold, radius, candidate tie, nearest-side choice) within 1e-6 of its boundary are skipped and counted; numeric tolerance 1e-6."
TECHNIQUE = "runtime monitoring: two-execution comparator over recorded manager runs (ego-frame vs map-frame rendering of one scenario)"
RULE = (
    "scenario pairs: detection / tracking / fp_validation tasks, 1..4 frames (thorough up to 8), random manager filters (x/y or "
    "distance), per-frame critical filters, pass/fail thresholds, all label policies, merging on/off, ego translation up to 1e4 "
    "and yaw over (-pi, pi]; non-trivial = pair in which the critical filter removed an object or a TP has a heading "
    "difference; distinct = (task, policy, range kind, removed?, tp?, fp?, fn?, tn?, n_frames class)"
)
ASSUMPTIONS = ["objects and ego have yaw-only rotations", "no decision within 1e-6 of a boundary in the ego-frame description (otherwise skipped)"]
DECIDING = ["C07.pairs_compared", "C07.frames_compared", "C07.pairs_with_removed_object", "C07.pairs_with_tp", "C07.tracking_pairs", "C07.scene_compared"]
JOBS = {"quick": 4, "thorough": 14}
TOL = 1e-6


def run(ctx: Ctx) -> None:
    n = 160 if ctx.quick else 4000
    for idx in ctx.indices("pairs", n):
        r = ctx.rng("pairs", idx)
        task = ["detection", "tracking", "detection", "fp_validation"][idx % 4]
        scn = gen_scenario(r, task=task, big=not ctx.quick and r.random() < 0.3)
        ctx.begin_case("pairs", idx, **scn.info)
        margin = compare.scenario_margin(scn)
        if margin < BOUNDARY:
            ctx.count("C07.skipped_boundary")
            continue
        negate = r.random() < 0.5
        with ctx.case_guard("pairs"):
            spec = scn.scene_spec()
            with D.DatasetDir(spec) as ds:
                run_e = Run(scn, "base_link", ds)
                run_m = Run(scn, "map", ds)
                dig_e: List[Dict[str, Any]] = []
                dig_m: List[Dict[str, Any]] = []
                for k in range(len(scn.frames)):
                    dig_e.append(compare.frame_digest(run_e.add(k)))
                    dig_m.append(compare.frame_digest(run_m.add(k, negate=negate)))
                scene_e = compare.metrics_digest(run_e.manager.get_scene_result())
                scene_m = compare.metrics_digest(run_m.manager.get_scene_result())
            ctx.count("C07.pairs_compared")
            removed = tp = False
            for k, (a, b) in enumerate(zip(dig_e, dig_m)):
                ctx.count("C07.frames_compared")
                for part in ("results", "critical_gt", "tp", "fp", "fn", "tn", "metrics"):
                    d = compare.diff(a[part], b[part], TOL)
                    if d is not None:
                        sub = part
                        if part == "results":
                            ka, kb = set(a[part]), set(b[part])
                            if ka != kb:
                                sub = "surviving_results"
                            elif any(a[part][u][0] != b[part][u][0] for u in ka):
                                sub = "pairing"
                            else:
                                sub = "pair_scores"
                        elif part == "metrics":
                            sub = "metrics_tracking" if "/tracking" in d else "metrics_detection"
                        ctx.violation(f"C07/ego_and_map_runs_differ:{sub}", dict(scn.info, frame=k, first_difference=d[:400], negate_q=negate, margin=margin), tap="comparator")
                        break
                n_est_in = len(scn.frames[k].ests)
                n_gt_in = len(scn.frames[k].gts)
                if len(a["results"]) < n_est_in or len(a["critical_gt"]) < n_gt_in:
                    removed = True
                if a["tp"]:
                    tp = True
            ctx.count("C07.scene_compared")
            d = compare.diff(scene_e, scene_m, TOL)
            if d is not None:
                ctx.violation("C07/ego_and_map_runs_differ:scene_metrics", dict(scn.info, first_difference=d[:400], negate_q=negate), tap="comparator")
            if removed:
                ctx.count("C07.pairs_with_removed_object")
            if tp:
                ctx.count("C07.pairs_with_tp")
            if task == "tracking":
                ctx.count("C07.tracking_pairs")
            buckets = tuple(bool(any(x[p] for x in dig_e)) for p in ("tp", "fp", "fn", "tn"))
            ctx.case((task, scn.info["policy"], "xy" if "max_x_position" in scn.cfg else "ring", removed, buckets, min(len(scn.frames), 3)), nontrivial=removed or tp, sample=dict(scn.info, margin=margin, frame0=dict(tp=dig_e[0]["tp"][:3], fp=dig_e[0]["fp"][:3], maps=dig_e[0]["metrics"]["maps"][:1])) if idx < 3 else None)
