"""C07 - evaluation results do not depend on the coordinate frame of the objects."""
from __future__ import annotations

from typing import Any, Dict, List

import math

from .. import compare
from ..core import BOUNDARY, Ctx, Taps
from ..gen import dataset as D
from ..gen import objects as O
from ..oracles import geometry as G
from ..scenario import Frame, Run, Scenario, gen_scenario

LEVEL_TEXT = (
    "Held on every pair of executions run under the comparator: one physical scenario (moving ego with translation up to 1e4 m "
    "and any yaw, ground-truth tracks, detector/tracker model) is written as a synthetic T4 dataset and evaluated twice by the "
    "real PerceptionEvaluationManager, once with every object expressed in the ego frame and once in the map frame with the "
    "ego pose supplied (a share of the map executions also negates quaternions); the two recorded runs are aligned frame by "
    "frame by object keys and compared: surviving results and critical ground truth, pair sets, per-pair scores (centre / "
    "plane distance, IoU 2D/3D), TP/FP/FN/TN lists, AP/APH/mAP and MOTA/MOTP/ID switches at frame and scene level."
)
LEVEL_NOTE = "Scenario pairs whose ego-frame description has any decision (bound, threshold, radius, candidate tie, nearest-side choice) within 1e-6 of its boundary are skipped and counted; numeric tolerance 1e-6."
TECHNIQUE = "runtime monitoring: two-execution comparator over recorded manager runs (ego-frame vs map-frame rendering of one scenario)"
RULE = (
    "scenario pairs: detection / tracking / fp_validation tasks, 1..4 frames (thorough up to 8), random manager filters (x/y or "
    "distance), per-frame critical filters, pass/fail thresholds, all label policies, merging on/off, ego translation up to 1e4 "
    "and yaw over (-pi, pi]; non-trivial = pair in which the critical filter removed an object or a TP has a heading "
    "difference; distinct = (task, policy, range kind, removed?, tp?, fp?, fn?, tn?, n_frames class)"
    " Later additions: range-filter quantities (|x|, |y|, planar distance through the frame's registry) compared between the renderings; ego headings almost along a map axis; follower vehicles at the range limit; twin ground truths at map offsets up to 1e5 m; estimates on the integer map grid given as ints; runs without a registered ego pose; interpolated lookups."
)
ASSUMPTIONS = ["objects and ego have yaw-only rotations", "no decision within 1e-6 of a boundary in the ego-frame description (otherwise skipped)"]
DECIDING = ["C07.interpolated_pairs_compared", "C07.pairs_compared", "C07.frames_compared", "C07.pairs_with_removed_object", "C07.pairs_with_tp", "C07.tracking_pairs", "C07.scene_compared", "C07.no_ego_pose_runs_compared", "C07.follower_pairs_compared", "C07.twin_pairs_compared", "C07.integer_map_estimates", "C07.inverse_registry_runs_compared"]
JOBS = {"quick": 4, "thorough": 14}
TOL = 1e-6


def run(ctx: Ctx) -> None:
    n = 160 if ctx.quick else 20000
    interpolated_pairs(ctx, 50 if ctx.quick else 8000)
    follower_pairs(ctx, 24 if ctx.quick else 3000)
    twin_pairs(ctx, 16 if ctx.quick else 2000)
    integer_map_pairs(ctx, 12 if ctx.quick else 1500)
    for idx in ctx.indices("pairs", n):
        r = ctx.rng("pairs", idx)
        task = ["detection", "tracking", "detection", "fp_validation"][idx % 4]
        # (tracking: three quarters of the cases with a fast, turning ego, so that "in range" differs clearly between the ego poses
        # of consecutive frames)
        scn = gen_scenario(r, task=task, big=not ctx.quick and r.random() < 0.3, fast_ego=(task == "tracking" and (idx // 4) % 4 != 0), n_frames=(r.randint(3, 5) if (task == "tracking" and (idx // 4) % 4 != 0) else None))
        ctx.begin_case("pairs", idx, **scn.info)
        margin = compare.scenario_margin(scn)
        if margin < BOUNDARY:
            ctx.count("C07.skipped_boundary")
            continue
        negate = r.random() < 0.5
        with ctx.case_guard("pairs"):
            spec = scn.scene_spec()
            with D.DatasetDir(spec) as ds:
                run_e = Run(scn, "base_link", ds)
                run_m = Run(scn, "map", ds)
                run_n = Run(scn, "base_link", ds) if idx % 2 == 0 else None  # ego frame without a registered ego pose
                run_i = Run(scn, "map", ds) if idx % 2 == 1 else None  # map frame, ego pose registered as map -> base_link
                dig_i: List[Dict[str, Any]] = []
                dig_e: List[Dict[str, Any]] = []
                dig_m: List[Dict[str, Any]] = []
                dig_n: List[Dict[str, Any]] = []
                for k in range(len(scn.frames)):
                    dig_e.append(compare.frame_digest(run_e.add(k)))
                    dig_m.append(compare.frame_digest(run_m.add(k, negate=negate)))
                    if run_n is not None:
                        dig_n.append(compare.frame_digest(run_n.add(k, no_ego_pose=True)))
                    if run_i is not None:
                        dig_i.append(compare.frame_digest(run_i.add(k, inverse_registry=True)))
                scene_e = compare.metrics_digest(run_e.manager.get_scene_result())
                scene_m = compare.metrics_digest(run_m.manager.get_scene_result())
                scene_n = compare.metrics_digest(run_n.manager.get_scene_result()) if run_n is not None else None
            if run_n is not None:
                ctx.count("C07.no_ego_pose_runs_compared")
                for k, (a, b) in enumerate(zip(dig_e, dig_n)):
                    for part in ("results", "critical_gt", "tp", "fp", "fn", "tn", "metrics", "ranges"):
                        d = compare.diff(a[part], b[part], TOL)
                        if d is not None:
                            ctx.violation(f"C07/ego_frame_run_depends_on_registered_ego_pose:{part}", dict(scn.info, frame=k, first_difference=d[:400]), tap="comparator")
                            break
                d = compare.diff(scene_e, scene_n, TOL)
                if d is not None:
                    ctx.violation("C07/ego_frame_run_depends_on_registered_ego_pose:scene_metrics", dict(scn.info, first_difference=d[:400]), tap="comparator")
            if run_i is not None:
                ctx.count("C07.inverse_registry_runs_compared")
                for k, (a, b) in enumerate(zip(dig_e, dig_i)):
                    for part in ("results", "critical_gt", "tp", "fp", "fn", "tn", "metrics", "ranges"):
                        d = compare.diff(a[part], b[part], TOL)
                        if d is not None:
                            ctx.violation(f"C07/map_run_depends_on_direction_the_ego_pose_is_registered_in:{part}", dict(scn.info, frame=k, first_difference=d[:400]), tap="comparator")
                            break
            ctx.count("C07.pairs_compared")
            removed = tp = False
            for k, (a, b) in enumerate(zip(dig_e, dig_m)):
                ctx.count("C07.frames_compared")
                for part in ("results", "critical_gt", "tp", "fp", "fn", "tn", "metrics", "ranges"):
                    d = compare.diff(a[part], b[part], TOL)
                    if d is not None:
                        sub = part
                        if part == "results":
                            ka, kb = set(a[part]), set(b[part])
                            if ka != kb:
                                sub = "surviving_results"
                            elif any(a[part][u][0] != b[part][u][0] for u in ka):
                                sub = "pairing"
                            else:
                                sub = "pair_scores"
                        elif part == "ranges":
                            sub = "range_filter_quantities"
                        elif part == "metrics":
                            sub = "metrics_tracking" if "/tracking" in d else "metrics_detection"
                        ctx.violation(f"C07/ego_and_map_runs_differ:{sub}", dict(scn.info, frame=k, first_difference=d[:400], negate_q=negate, margin=margin), tap="comparator")
                        break
                n_est_in = len(scn.frames[k].ests)
                n_gt_in = len(scn.frames[k].gts)
                if len(a["results"]) < n_est_in or len(a["critical_gt"]) < n_gt_in:
                    removed = True
                if a["tp"]:
                    tp = True
            ctx.count("C07.scene_compared")
            d = compare.diff(scene_e, scene_m, TOL)
            if d is not None:
                ctx.violation("C07/ego_and_map_runs_differ:scene_metrics", dict(scn.info, first_difference=d[:400], negate_q=negate), tap="comparator")
            if removed:
                ctx.count("C07.pairs_with_removed_object")
            if tp:
                ctx.count("C07.pairs_with_tp")
            if task == "tracking":
                ctx.count("C07.tracking_pairs")
            buckets = tuple(bool(any(x[p] for x in dig_e)) for p in ("tp", "fp", "fn", "tn"))
            ctx.case((task, scn.info["policy"], "xy" if "max_x_position" in scn.cfg else "ring", removed, buckets, min(len(scn.frames), 3)), nontrivial=removed or tp, sample=dict(scn.info, margin=margin, frame0=dict(tp=dig_e[0]["tp"][:3], fp=dig_e[0]["fp"][:3], maps=dig_e[0]["metrics"]["maps"][:1])) if idx < 3 else None)


def follower_pairs(ctx: Ctx, n: int) -> None:
    """Tracking with a fast ego and vehicles that keep their ego-relative place near the edge of the evaluated range (a car
    following at the rear limit, one leading at the front limit): in range in every frame as seen from that frame's
    ego pose, out of range as seen from the neighbouring frame's. Track ids change between frames."""
    for idx in ctx.indices("followers", n):
        r = ctx.rng("followers", idx)
        R = r.choice([30.0, 40.0, 60.0])
        nF = r.randint(2, 4)
        speed, dt = r.uniform(20.0, 40.0), r.choice([200_000, 500_000])
        ego_yaw0, yawrate = O.rand_yaw(r), r.uniform(-0.3, 0.3)
        t0 = 1_600_000_000_000_000 + r.randint(0, 10**9)
        ego0 = (r.uniform(-1e4, 1e4), r.uniform(-1e4, 1e4), 0.0)
        ring = r.random() < 0.5
        rel = [(-(R - r.uniform(1.0, 4.0)), r.uniform(-1.0, 1.0)), ((R - r.uniform(1.0, 4.0)), r.uniform(-1.0, 1.0)), (r.uniform(-5, 5), r.uniform(3, 8))]
        frames = []
        ep, ey = list(ego0), ego_yaw0
        for k in range(nF):
            fr = Frame(t=t0 + k * dt, ego_pos=(ep[0], ep[1], ep[2]), ego_yaw=ey)
            for j, (x, y) in enumerate(rel):
                box = (x, y, 0.0, 0.0, 1.9, 4.5, 1.6)
                fr.gts.append(dict(key=f"veh{j}", category="car", canon="car", box=box, npts=50, vis="full", attrs=[]))
                uid = f"trk{j}_{k if (j + k) % 2 == 0 else 0}"  # ids of some tracks change from frame to frame
                fr.ests.append(dict(key=f"e{k}_{j}", name="car", box=(x + r.gauss(0, 0.2), y + r.gauss(0, 0.2), 0.0, r.gauss(0, 0.05), 1.9, 4.5, 1.6), score=round(0.9 - 0.1 * j - 0.01 * k, 4), uuid=uid))
            frames.append(fr)
            sec = dt * 1e-6
            ep = [ep[0] + speed * sec * math.cos(ey), ep[1] + speed * sec * math.sin(ey), 0.0]
            ey = G.wrap_pi(ey + yawrate * sec)
        cfg = {"evaluation_task": "tracking", "target_labels": ["car"], "label_prefix": "autoware", "merge_similar_labels": False, "matching_label_policy": "DEFAULT", "min_point_numbers": [0], "center_distance_thresholds": [[1.0]], "plane_distance_thresholds": [[2.0]], "iou_2d_thresholds": [[0.3]], "iou_3d_thresholds": [[0.3]]}
        crit = {"target_labels": ["car"]}
        if ring:
            cfg.update(max_distance=R, min_distance=0.0)
            crit.update(max_distance_list=[R], min_distance_list=[0.0])
        else:
            cfg.update(max_x_position=R, max_y_position=R)
            crit.update(max_x_position_list=[R], max_y_position_list=[R])
        scn = Scenario(task="tracking", frames=frames, cfg=cfg, critical=[crit] * nF, passfail=[{"target_labels": ["car"], "matching_threshold_list": [2.0]}] * nF, info=dict(task="tracking", n_frames=nF, R=R, ring=ring, speed=speed))
        ctx.begin_case("followers", idx, **scn.info)
        if compare.scenario_margin(scn) < BOUNDARY:
            ctx.count("C07.skipped_boundary")
            continue
        with ctx.case_guard("followers"):
            with D.DatasetDir(scn.scene_spec()) as ds:
                run_e, run_m = Run(scn, "base_link", ds), Run(scn, "map", ds)
                dig_e = [compare.frame_digest(run_e.add(k)) for k in range(nF)]
                dig_m = [compare.frame_digest(run_m.add(k)) for k in range(nF)]
            ctx.count("C07.follower_pairs_compared")
            for k, (a, b) in enumerate(zip(dig_e, dig_m)):
                for part in ("results", "critical_gt", "tp", "fp", "fn", "tn", "metrics", "ranges"):
                    d = compare.diff(a[part], b[part], TOL)
                    if d is not None:
                        ctx.violation(f"C07/ego_and_map_runs_differ:followers:{part}", dict(scn.info, frame=k, first_difference=d[:400]), tap="comparator")
                        break
            ctx.case(("followers", ring, nF), nontrivial=True)


def twin_pairs(ctx: Ctx, n: int) -> None:
    """Map coordinates of the order of 1e5 m (MGRS-style local maps) and ground-truth objects a few decimetres apart with
    the same label, heading and height (pedestrians side by side), of which one is detected and its neighbour missed: in the
    map rendering the neighbours differ in the 7th significant digit only."""
    for idx in ctx.indices("twins", n):
        r = ctx.rng("twins", idx)
        ego_pos = (r.choice([-1, 1]) * r.uniform(3e4, 1e5), r.choice([-1, 1]) * r.uniform(3e4, 1e5), r.uniform(-2, 2))
        ego_yaw = O.rand_yaw(r)
        t0 = 1_600_000_000_000_000 + r.randint(0, 10**9)
        fr = Frame(t=t0, ego_pos=ego_pos, ego_yaw=ego_yaw)
        n_groups = r.randint(1, 3)
        for gk in range(n_groups):
            x, y, yaw = r.uniform(-25, 25), r.uniform(-25, 25), O.rand_yaw(r)
            cat = r.choice(["pedestrian", "car", "bicycle"])
            size = (0.6, 0.6, 1.7) if cat == "pedestrian" else (1.9, 4.5, 1.6) if cat == "car" else (0.6, 1.8, 1.5)
            gap = r.uniform(0.25, 0.45) if cat == "pedestrian" else r.uniform(0.3, 0.8)
            ang = r.uniform(-math.pi, math.pi)
            n_twins = r.randint(2, 3)
            detected = r.randrange(n_twins)
            for j in range(n_twins):
                bx, by = x + j * gap * math.cos(ang), y + j * gap * math.sin(ang)
                fr.gts.append(dict(key=f"g{gk}_{j}", category=cat, canon=cat, box=(bx, by, 0.0, yaw, *size), npts=30, vis="full", attrs=[]))
                if j == detected:
                    fr.ests.append(dict(key=f"e{gk}", name=cat, box=(bx + r.gauss(0, 0.02), by + r.gauss(0, 0.02), 0.0, yaw, *size), score=round(0.9 - 0.1 * gk, 3), uuid=f"t{gk}"))
        cfg = {"evaluation_task": "detection", "target_labels": ["car", "pedestrian", "bicycle"], "label_prefix": "autoware", "merge_similar_labels": False, "matching_label_policy": "DEFAULT", "min_point_numbers": [0, 0, 0], "max_x_position": 60.0, "max_y_position": 60.0, "center_distance_thresholds": [[0.1, 0.1, 0.1]], "plane_distance_thresholds": [[0.12, 0.12, 0.12]], "iou_2d_thresholds": [[0.8, 0.8, 0.8]], "iou_3d_thresholds": [[0.8, 0.8, 0.8]]}
        crit = {"target_labels": ["car", "pedestrian", "bicycle"], "max_x_position_list": [50.0] * 3, "max_y_position_list": [50.0] * 3}
        scn = Scenario(task="detection", frames=[fr], cfg=cfg, critical=[crit], passfail=[{"target_labels": ["car", "pedestrian", "bicycle"], "matching_threshold_list": [0.12] * 3}], info=dict(task="detection", n_frames=1, groups=n_groups, ego=[round(v, 1) for v in ego_pos]))
        ctx.begin_case("twins", idx, **scn.info)
        if compare.scenario_margin(scn) < BOUNDARY:
            ctx.count("C07.skipped_boundary")
            continue
        with ctx.case_guard("twins"):
            with D.DatasetDir(scn.scene_spec()) as ds:
                run_e, run_m = Run(scn, "base_link", ds), Run(scn, "map", ds)
                a, b = compare.frame_digest(run_e.add(0)), compare.frame_digest(run_m.add(0))
            ctx.count("C07.twin_pairs_compared")
            for part in ("results", "critical_gt", "tp", "fp", "fn", "tn", "metrics", "ranges"):
                d = compare.diff(a[part], b[part], TOL)
                if d is not None:
                    ctx.violation(f"C07/ego_and_map_runs_differ:twins:{part}", dict(scn.info, first_difference=d[:400]), tap="comparator")
                    break
            ctx.case(("twins", n_groups, len(a["fn"]) > 0), nontrivial=len(a["fn"]) > 0 and len(a["tp"]) > 0)


def integer_map_pairs(ctx: Ctx, n: int) -> None:
    """Estimates whose map coordinates lie on the integer grid and are given as Python ints (ego pose with a non-trivial
    yaw and non-integer translation, so the ego-relative coordinates are not integers)."""
    for idx in ctx.indices("integer_map", n):
        r = ctx.rng("integer_map", idx)
        ego_pos = (r.uniform(-500, 500), r.uniform(-500, 500), r.uniform(-1, 1))
        ego_yaw = r.uniform(-math.pi, math.pi)
        t0 = 1_600_000_000_000_000 + r.randint(0, 10**9)
        fr = Frame(t=t0, ego_pos=ego_pos, ego_yaw=ego_yaw)
        c, s_ = math.cos(-ego_yaw), math.sin(-ego_yaw)

        def ego_of(P):
            dx, dy = P[0] - ego_pos[0], P[1] - ego_pos[1]
            return (c * dx - s_ * dy, s_ * dx + c * dy, P[2] - ego_pos[2])

        R = r.choice([20.0, 35.0])
        for k in range(r.randint(3, 7)):
            P = (int(round(ego_pos[0] + r.uniform(-1.3, 1.3) * R)), int(round(ego_pos[1] + r.uniform(-1.3, 1.3) * R)), int(round(ego_pos[2])))
            Pe = P  # the estimate sits on the grid point, the annotated object a few decimetres off it
            yaw_map = r.uniform(-math.pi, math.pi)
            g, e = ego_of((P[0] + r.uniform(-0.5, 0.5), P[1] + r.uniform(-0.5, 0.5), P[2])), ego_of(Pe)
            yaw_ego = G.wrap_pi(yaw_map - ego_yaw)
            fr.gts.append(dict(key=f"g{k}", category="car", canon="car", box=(g[0], g[1], g[2], yaw_ego, 1.9, 4.5, 1.6), npts=30, vis="full", attrs=[]))
            fr.ests.append(dict(key=f"e{k}", name="car", box=(e[0], e[1], e[2], yaw_ego, 1.9, 4.5, 1.6), score=round(0.95 - 0.05 * k, 3), uuid=f"t{k}", int_map=True))
        ring = r.random() < 0.5
        cfg = {"evaluation_task": "detection", "target_labels": ["car"], "label_prefix": "autoware", "merge_similar_labels": False, "matching_label_policy": "DEFAULT", "min_point_numbers": [0], "center_distance_thresholds": [[1.2]], "plane_distance_thresholds": [[1.6]], "iou_2d_thresholds": [[0.3]], "iou_3d_thresholds": [[0.3]]}
        crit: Dict[str, Any] = {"target_labels": ["car"]}
        if ring:
            cfg.update(max_distance=R * 1.5, min_distance=0.0)
            crit.update(max_distance_list=[R], min_distance_list=[0.0])
        else:
            cfg.update(max_x_position=R * 1.5, max_y_position=R * 1.5)
            crit.update(max_x_position_list=[R], max_y_position_list=[R])
        scn = Scenario(task="detection", frames=[fr], cfg=cfg, critical=[crit], passfail=[{"target_labels": ["car"], "matching_threshold_list": [1.6]}], info=dict(task="detection", n_frames=1, ring=ring, R=R))
        ctx.begin_case("integer_map", idx, **scn.info)
        if compare.scenario_margin(scn) < 1e-4:
            ctx.count("C07.skipped_boundary")
            continue
        with ctx.case_guard("integer_map"):
            with D.DatasetDir(scn.scene_spec()) as ds:
                run_e, run_m = Run(scn, "base_link", ds), Run(scn, "map", ds)
                a, b = compare.frame_digest(run_e.add(0)), compare.frame_digest(run_m.add(0))
                n_int = sum(1 for o in run_m.estimates[0] if all(isinstance(v, int) for v in o.state.position))
            ctx.count("C07.integer_map_pairs_compared")
            ctx.count("C07.integer_map_estimates", n_int)
            for part in ("results", "critical_gt", "tp", "fp", "fn", "tn", "metrics", "ranges"):
                d = compare.diff(a[part], b[part], 1e-5)
                if d is not None:
                    ctx.violation(f"C07/ego_and_map_runs_differ:integer_map:{part}", dict(scn.info, first_difference=d[:400]), tap="comparator")
                    break
            ctx.case(("integer_map", ring, min(len(a["tp"]), 3)), nontrivial=n_int > 0)


def interpolated_pairs(ctx: Ctx, n: int) -> None:
    """Frames produced by the library's own interpolated lookup (map-frame objects derived from two samples) evaluated
    in the map frame, versus the same physical frame rendered in the ego frame by the oracle's algebra."""
    import math

    import numpy as np
    from pyquaternion import Quaternion

    from perception_eval.common.dataset import FrameGroundTruth
    from perception_eval.common.object import DynamicObject
    from perception_eval.common.schema import FrameID
    from perception_eval.common.shape import Shape, ShapeType

    from ..gen import objects as O
    from ..oracles import geometry as G

    for idx in ctx.indices("interpolated", n):
        r = ctx.rng("interpolated", idx)
        task = ["detection", "tracking"][idx % 2]
        # (a fast, turning ego: the ego pose at the query time differs clearly from the poses of both neighbours)
        scn = gen_scenario(r, task=task, n_frames=r.randint(2, 4), fp_share=r.choice([0.0, 0.15]), fast_ego=idx % 2 == 0)
        ctx.begin_case("interpolated", idx, **scn.info)
        with ctx.case_guard("interpolated"):
            with D.DatasetDir(scn.scene_spec()) as ds:
                run_m, run_e = Run(scn, "map", ds), Run(scn, "base_link", ds)
                for k in range(len(scn.frames)):  # the sample frames are evaluated first (as a user would)
                    run_m.add(k)
                    run_e.add(k)
                for trial in range(2):
                    k = r.randrange(len(scn.frames) - 1)
                    t1, t2 = scn.frames[k].t, scn.frames[k + 1].t
                    t = r.randint(t1 + 1, t2 - 1) if t2 - t1 > 2 else t1
                    F = run_m.manager.get_ground_truth_now_frame(t, threshold_min_time=t2 - t1, interpolate_ground_truth=True)
                    if F is None or any(F is f for f in run_m.manager.ground_truth_frames):
                        ctx.count("C07.interpolated_not_produced")
                        continue
                    M = np.asarray(F.transforms.get((FrameID.BASE_LINK, FrameID.MAP)).matrix, dtype=float)
                    Minv = G.inv_rigid(M)
                    ego_yaw = G.yaw_of_matrix(M[:3, :3])
                    ego_pos = tuple(float(v) for v in M[:3, 3])
                    gts_e, specs_g, specs_e = [], [], []
                    for o in F.objects:
                        q = o.state.orientation
                        yaw_m = G.yaw_of_quat((q.w, q.x, q.y, q.z))
                        p = Minv @ np.append(np.array(o.state.position, dtype=float), 1.0)
                        box = (float(p[0]), float(p[1]), float(p[2]), G.wrap_pi(yaw_m - ego_yaw), *[float(v) for v in o.state.size])
                        ge = DynamicObject(unix_time=o.unix_time, frame_id=FrameID.BASE_LINK, position=box[:3], orientation=Quaternion(*G.quat_from_yaw(box[3])), shape=Shape(ShapeType.BOUNDING_BOX, box[4:7]), velocity=o.state.velocity, semantic_score=1.0, semantic_label=o.semantic_label, pointcloud_num=o.pointcloud_num, uuid=o.uuid, visibility=o.visibility)
                        gts_e.append(ge)
                        specs_g.append(dict(key=o.uuid, box=box))
                        if r.random() < 0.85:
                            sig = r.choice([0.05, 0.4, 1.5])
                            eb = (box[0] + r.gauss(0, sig), box[1] + r.gauss(0, sig), box[2], G.wrap_pi(box[3] + r.gauss(0, 0.2)), box[4], box[5], box[6])
                            name = o.semantic_label.name if r.random() < 0.8 else r.choice(["car", "pedestrian", "unknown", "bicycle"])
                            specs_e.append(dict(key=f"e_{o.uuid}", name=name, box=eb, score=round(r.uniform(0.05, 1.0), 4), uuid=f"t_{o.uuid}"))
                    pseudo = Scenario(task=task, frames=[Frame(t=t, ego_pos=ego_pos, ego_yaw=ego_yaw, gts=specs_g, ests=specs_e)], cfg=scn.cfg, critical=[scn.critical[k]], passfail=[scn.passfail[k]])
                    margin = compare.scenario_margin(pseudo)
                    if margin < BOUNDARY:
                        ctx.count("C07.skipped_boundary")
                        continue
                    conv = run_m.config.label_converter

                    def mk(e, frame):
                        b = e["box"]
                        o = O.obj3d(*b, score=e["score"], uuid=e["uuid"], t=t)
                        o.semantic_label = conv.convert_label(e["name"])
                        return O.to_map(o, ego_pos, ego_yaw) if frame == "map" else o

                    crit_m, pf_m = run_m.configs(k)
                    crit_e, pf_e = run_e.configs(k)
                    res_m = run_m.manager.add_frame_result(t, F, [mk(e, "map") for e in specs_e], crit_m, pf_m)
                    F_ego = FrameGroundTruth(unix_time=t, frame_name=F.frame_name, objects=gts_e, transforms=[O.ego2map(ego_pos, ego_yaw)])
                    res_e = run_e.manager.add_frame_result(t, F_ego, [mk(e, "ego") for e in specs_e], crit_e, pf_e)
                    a, b = compare.frame_digest(res_e), compare.frame_digest(res_m)
                    for dgst in (a, b):
                        dgst["metrics"]["tracking"] = []  # predecessors differ by construction here
                    ctx.count("C07.interpolated_pairs_compared")
                    dd = compare.diff(a, b, TOL * 10)
                    if dd is not None:
                        ctx.violation("C07/ego_and_map_runs_differ:interpolated_frame", dict(scn.info, t=t, neighbours=(t1, t2), first_difference=dd[:400], margin=margin), tap="comparator")
                    ctx.case(("interpolated", task, scn.info["policy"], bool(a["tp"]), len(a["results"]) < len(specs_e)), nontrivial=True)
