"""C02 - label-compatible pairs first, then best score (no blocking pair)."""
from __future__ import annotations

from ..core import Ctx, Taps
from .. import matching

LEVEL_TEXT = 'Held on every monitored call: blocking-pair predicate over all candidate pairs (tie-tolerant) and exact equality with a reference two-stage greedy when no scores tie, with contested ground truths and closer-but-incompatible candidates generated on purpose and counted.'
LEVEL_NOTE = 'Oracle recomputes all scores with its own geometry; cases with a decision within 1e-6 of a boundary are skipped and counted.'
TECHNIQUE = "runtime monitoring: tap on get_object_results + reference matcher model (identity accounting, blocking-pair predicate, reference greedy)"
RULE = (
    "same generated object sets as C01, judged by the blocking-pair predicate over all n*m candidate pairs and, when no two "
    "candidate scores tie (> 1e-6 apart, none within 1e-6 of a radius), by exact equality with the reference two-stage greedy; "
    "non-trivial = both lists non-empty; distinct signatures as in C01"
)
ASSUMPTIONS = [
    "scores are recomputed by the oracle's own geometry (plane distance too); cases with an ambiguous nearest side or a score "
    "within 1e-6 of the radius are skipped",
    "with score ties only the tie-tolerant predicate is asserted",
]
DECIDING = ["C02.checked", "C02.blocking_checked", "C02.exact_checked", "C02.contested_cases", "C02.closer_incompatible_cases"]
JOBS = {"quick": 4, "thorough": 14}


def run(ctx: Ctx) -> None:
    from ..scenario import run_manager_scenarios

    with Taps(ctx) as taps:
        matching.install_matching_tap(taps, ctx, clauses=("C02",))
        matching.run_direct_matching(ctx, "direct", 1600 if ctx.quick else 60000)
        run_manager_scenarios(ctx, "scenario", 16 if ctx.quick else 800)
        ctx.notes["taps"] = taps.installed
