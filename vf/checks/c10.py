"""C10 - object filtering keeps exactly the objects satisfying the configured criteria."""
from __future__ import annotations

import copy
import math
import random
from typing import Any, Dict, List, Optional, Sequence, Tuple

import numpy as np

from perception_eval.common.label import AutowareLabel
from perception_eval.common.object import DynamicObject
from perception_eval.evaluation.matching import objects_filter as of_mod

from .. import matching
from ..core import BOUNDARY, Ctx, Taps, guarded
from ..gen import objects as O
from ..oracles import geometry as G

def _lib_of():
    # library functions are called from the modules that define them (not through a name another module happens to import)
    import perception_eval.evaluation.matching.objects_filter as m

    return m


def _lib_or():
    import perception_eval.evaluation.result.object_result as m

    return m


LEVEL_TEXT = (
    "Held on every filter call executed under the monitor: filter_objects / filter_object_results (all aliases) and the "
    "per-object decision helper are tapped; the returned list must be the order-preserving sub-list selected by a predicate "
    "written from the statement (targeted label, ignored attributes, ego-relative x/y or distance strictly inside the label's "
    "bounds using the oracle's own transform for map-frame objects, confidence, point count, uuid, FP-label and "
    "unknown-estimate relaxations), inputs are snapshotted for the no-mutation clause, and idempotence and monotonicity are "
    "decided by second executions (re-application; one bound widened). Objects are placed around every bound."
)
LEVEL_NOTE = "An object whose decision lies within 1e-6 of a bound is not judged (either outcome accepted); map-frame objects always come with the ego pose."
TECHNIQUE = "runtime monitoring: taps on filter_objects/filter_object_results/_is_target_object + reference predicate; metamorphic second executions (idempotence, widened bound)"
RULE = (
    "direct calls with 3D object lists in the ego or map frame (random ego pose) and 2D lists, label sets with/without unknown, "
    "per-label bound lists (x/y or min/max distance, confidence, point count), uuid lists, ignore-attribute lists incl. "
    "substring keys, objects placed inside / just inside / just outside / far outside each bound; results from the real "
    "matcher for filter_object_results; scenario runs through the manager. non-trivial = call that keeps some and rejects some; "
    "distinct = (function, frame, range kind, is_gt, rejecting criteria present)"
    " Later additions: 2D objects carrying a 3D position in their camera frame (extrinsics in the registry, either direction); direct calls with both bound families at once; objects exactly on a bound (decided structurally in the ego frame)."
)
ASSUMPTIONS = ["per-label lists are aligned with target_labels", "ground-truth confidence is 1.0"]
DECIDING = ["filter_objects.judged", "filter_object_results.judged", "C10.idempotence_checked", "C10.monotonicity_checked", "C10.mutation_checked"] + [f"C10.rejected_by.{k}" for k in ("label", "attribute", "x", "y", "max_distance", "min_distance", "confidence", "points", "uuid")]
JOBS = {"quick": 4, "thorough": 14}

KW = ["target_labels", "ignore_attributes", "max_x_position_list", "max_y_position_list", "max_distance_list", "min_distance_list", "min_point_numbers", "confidence_threshold_list", "target_uuids", "transforms"]


def idx_of(labels: Optional[Sequence[Any]], lab: Any) -> Optional[int]:
    if labels is None:
        return None
    for i, t in enumerate(labels):
        if t is lab or t == lab:
            return i
    return None


def verdict(ctx: Optional[Ctx], o: Any, is_gt: bool, p: Dict[str, Any]) -> Tuple[Optional[bool], Optional[str]]:
    """(keep?, first rejecting criterion). None = undecided (within 1e-6 of a bound)."""
    if O.is_fp_label(o):
        return True, None
    labels = p.get("target_labels")
    i = idx_of(labels, o.semantic_label.label)
    unknown_rule = (not is_gt) and O.is_unknown_label(o) and not (labels is not None and any(str(getattr(t, "value", t)) == "unknown" for t in labels))
    if labels and not unknown_rule and i is None:
        return False, "label"
    ign = p.get("ignore_attributes")
    if ign is not None and not unknown_rule:
        name, attrs = o.semantic_label.name, o.semantic_label.attributes
        if any((k in name) or (k in attrs) for k in ign):
            return False, "attribute"

    def thr(lst, unknown_value=None):
        if unknown_rule:
            return float(np.mean(lst)) if unknown_value is None else unknown_value
        return None if i is None else lst[i]

    conf = p.get("confidence_threshold_list")
    if conf is not None:
        t = thr(conf, 0.0)
        if t is not None:
            if abs(o.semantic_score - t) < 1e-12:
                return None, None
            if not o.semantic_score > t:
                return False, "confidence"
    pos = None
    exact = False
    if isinstance(o, DynamicObject) or o.state.position is not None:
        fr = O.frame_of(o)
        exact = fr == "base_link"  # no arithmetic between the stored coordinate and the compared one
        if fr == "base_link" and p.get("transforms") is None:
            pos = np.array(o.state.position, dtype=float)
        elif o.state.position is not None and p.get("transforms") is not None:
            if fr == "base_link":
                pos = np.array(o.state.position, dtype=float)
            else:
                T = matching.ego_T_of(fr, p["transforms"])
                if T is None:
                    return None, None
                pos = (T @ np.append(np.array(o.state.position, dtype=float), 1.0))[:3]
    if pos is not None:
        d = float(math.hypot(pos[0], pos[1]))
        for key, val, upper, name in (("max_x_position_list", abs(pos[0]), True, "x"), ("max_y_position_list", abs(pos[1]), True, "y"), ("max_distance_list", d, True, "max_distance"), ("min_distance_list", d, False, "min_distance")):
            lst = p.get(key)
            if lst is None:
                continue
            t = thr(lst)
            if t is None:
                continue
            if abs(val - t) < BOUNDARY and not (exact and val == float(t)):
                return None, None  # numerically delicate: undecided
            # (an ego-frame coordinate that EQUALS its bound is not delicate: the bounds are strict, it is outside)
            if (upper and not val < t) or (not upper and not val > t):
                return False, name
        mp = p.get("min_point_numbers")
        if mp is not None and is_gt:
            t = 0 if unknown_rule else (None if i is None else mp[i])
            if t is not None and not o.pointcloud_num >= t:
                return False, "points"
    uu = p.get("target_uuids")
    if uu is not None and is_gt:
        if o.uuid not in uu:
            return False, "uuid"
    return True, None


def snapshot(o: Any) -> Tuple:
    if o is None:
        return None
    st = o.state
    return (id(o), O.lab_of(o), o.semantic_label.name, tuple(o.semantic_label.attributes), o.semantic_score, o.uuid, None if st.position is None else tuple(st.position), None if st.orientation is None else tuple(st.orientation.elements), O.frame_of(o), getattr(o, "pointcloud_num", None))


def bind(args, kwargs, first: str) -> Dict[str, Any]:
    names = [first] + (["is_gt"] if first == "objects" else []) + KW
    d: Dict[str, Any] = {k: None for k in KW}
    for n, v in zip(names, args):
        d[n] = v
    for k, v in kwargs.items():
        if k in d or k in (first, "is_gt"):
            d[k] = v
    return d


def install(taps: Taps, ctx: Ctx) -> None:
    def fo_factory(orig):
        def filter_objects(*args, **kwargs):
            p = bind(args, kwargs, "objects")
            objs = p["objects"]
            before = [snapshot(o) for o in objs]
            snap_list = list(objs)
            out = orig(*args, **kwargs)
            guarded(ctx, "filter_objects", lambda: judge_objects(ctx, p, snap_list, before, out))
            return out

        return filter_objects

    taps.fn(of_mod, "filter_objects", fo_factory)

    def fr_factory(orig):
        def filter_object_results(*args, **kwargs):
            p = bind(args, kwargs, "object_results")
            res = p["object_results"]
            snap_list = list(res)
            before = [(snapshot(r.estimated_object), snapshot(r.ground_truth_object)) for r in res]
            out = orig(*args, **kwargs)
            guarded(ctx, "filter_object_results", lambda: judge_results(ctx, p, snap_list, before, out))
            return out

        return filter_object_results

    taps.fn(of_mod, "filter_object_results", fr_factory)

    def it_factory(orig):
        def _is_target_object(dynamic_object, is_gt, **kwargs):
            out = orig(dynamic_object, is_gt, **kwargs)
            ctx.count("_is_target_object.calls")

            def j():
                v, why = verdict(None, dynamic_object, is_gt, kwargs)
                if v is not None:
                    ctx.check(bool(out) == v, "C10/per_object_decision_differs_from_criteria", dict(is_gt=is_gt, obj=O.describe(dynamic_object), decided=bool(out), expected=v, criterion=why), "_is_target_object")

            guarded(ctx, "_is_target_object", j)
            return out

        return _is_target_object

    taps.fn(of_mod, "_is_target_object", it_factory)


def compare(ctx: Ctx, tap: str, items: List[Any], verdicts: List[Optional[bool]], out: List[Any], info: Dict[str, Any]) -> None:
    ids_in = {id(x): k for k, x in enumerate(items)}
    pos = [ids_in.get(id(x)) for x in out]
    ctx.check(all(q is not None for q in pos), "C10/filter_returns_alien_object", info, tap)
    if any(q is None for q in pos):
        return
    ctx.check(all(a < b for a, b in zip(pos, pos[1:])), "C10/filter_not_order_preserving_sublist", dict(info, positions=pos[:20]), tap)
    kept = set(pos)
    for k, v in enumerate(verdicts):
        if v is None:
            ctx.count(f"{tap}.skipped_boundary")
            continue
        if v and k not in kept:
            ctx.violation("C10/object_satisfying_criteria_removed", dict(info, index=k), tap=tap)
            return
        if (not v) and k in kept:
            ctx.violation("C10/object_failing_criteria_kept", dict(info, index=k), tap=tap)
            return


def judge_objects(ctx: Ctx, p: Dict[str, Any], objs: List[Any], before: List[Tuple], out: List[Any]) -> None:
    tap = "filter_objects"
    is_gt = bool(p["is_gt"])
    vs, why = [], []
    for o in objs:
        v, w = verdict(ctx, o, is_gt, p)
        vs.append(v)
        why.append(w)
        if w:
            ctx.count(f"C10.rejected_by.{w}")
    ctx.count("filter_objects.judged")
    info = dict(fn=tap, is_gt=is_gt, n=len(objs), n_out=len(out), params={k: (str(v)[:120] if k != "transforms" else (v is not None)) for k, v in p.items() if k in KW and v is not None}, objs=[O.describe(o) for o in objs[:6]], expected=vs[:12], reasons=why[:12])
    compare(ctx, tap, objs, vs, out, info)
    ctx.count("C10.mutation_checked")
    ctx.check(len(p["objects"]) == len(objs) and all(a is b for a, b in zip(p["objects"], objs)) and [snapshot(o) for o in objs] == before, "C10/filter_mutates_input", info, tap)
    frame = O.frame_of(objs[0]) if objs else "none"
    ctx.evaluations += 1
    ctx.case(("filter_objects", frame, "xy" if p.get("max_x_position_list") is not None else "ring" if p.get("max_distance_list") is not None else "norange", is_gt, tuple(sorted({w for w in why if w}))), nontrivial=0 < len(out) < len(objs), sample=info if ctx.counters["filter_objects.judged"] in (3, 30) else None)


def judge_results(ctx: Ctx, p: Dict[str, Any], res: List[Any], before: List[Tuple], out: List[Any]) -> None:
    tap = "filter_object_results"
    vs: List[Optional[bool]] = []
    why = []
    pe = dict(p, ignore_attributes=None, min_point_numbers=None, target_uuids=None)
    pg = dict(p, confidence_threshold_list=None)
    for r in res:
        ve, we = verdict(ctx, r.estimated_object, False, pe)
        if r.ground_truth_object is not None:
            vg, wg = verdict(ctx, r.ground_truth_object, True, pg)
        else:
            vg, wg = (False, "uuid") if p.get("target_uuids") else (True, None)
        if ve is False or vg is False:
            vs.append(False)
        elif ve is None or vg is None:
            vs.append(None)
        else:
            vs.append(True)
        why.append(we or wg)
        if we or wg:
            ctx.count(f"C10.rejected_by.{we or wg}")
        if ve is True and vg is False:
            ctx.count("C10.result_removed_by_gt_only")
    ctx.count("filter_object_results.judged")
    info = dict(fn=tap, n=len(res), n_out=len(out), params={k: (str(v)[:120] if k != "transforms" else (v is not None)) for k, v in p.items() if k in KW and v is not None}, pairs=[(O.describe(r.estimated_object), O.describe(r.ground_truth_object)) for r in res[:4]], expected=vs[:12], reasons=why[:12])
    compare(ctx, tap, res, vs, out, info)
    ctx.check(len(p["object_results"]) == len(res) and all(a is b for a, b in zip(p["object_results"], res)) and [(snapshot(r.estimated_object), snapshot(r.ground_truth_object)) for r in res] == before, "C10/filter_mutates_input", info, tap)
    frame = O.frame_of(res[0].estimated_object) if res else "none"
    ctx.evaluations += 1
    ctx.case(("filter_object_results", frame, "xy" if p.get("max_x_position_list") is not None else "ring" if p.get("max_distance_list") is not None else "norange", tuple(sorted({w for w in why if w}))), nontrivial=0 < len(out) < len(res))


# ---------------------------------------------------------------------------------------
# workload
# ---------------------------------------------------------------------------------------
ATTR_POOL = [[], [], ["vehicle.moving"], ["vehicle.parked"], ["cycle.with_rider", "occluded"]]
RAW_NAMES = {"car": ["car", "vehicle.car", "vehicle.police"], "truck": ["truck", "trailer"], "bus": ["bus", "vehicle.bus"], "bicycle": ["bicycle"], "motorbike": ["motorbike", "motorcycle"], "pedestrian": ["pedestrian", "pedestrian.adult", "stroller"], "unknown": ["unknown", "animal"], "false_positive": ["false_positive"]}


def gen_case(r: random.Random) -> Dict[str, Any]:
    pool = ["car", "truck", "bus", "bicycle", "motorbike", "pedestrian"]
    target = r.sample(pool, r.randint(1, 5))
    if r.random() < 0.4:
        target.append("unknown")
    nl = len(target)
    labels = [AutowareLabel(t) for t in target]
    wide = r.choice([20.0, 60.0])
    kind = r.choice(["xy", "ring", "none", "both"])
    p: Dict[str, Any] = {"target_labels": labels}
    if kind == "both":
        # both families of bounds in one direct call (a corridor inside a ring): every configured bound applies
        p["max_x_position_list"] = [round(r.uniform(0.3, 1.0) * wide, 1) for _ in range(nl)]
        p["max_y_position_list"] = [round(r.uniform(0.1, 1.0) * wide, 1) for _ in range(nl)]
        p["max_distance_list"] = [round(r.uniform(0.8, 2.5) * wide, 1) for _ in range(nl)]
        if r.random() < 0.5:
            p["min_distance_list"] = [round(r.choice([0.0, r.uniform(0.02, 0.2) * wide]), 1) for _ in range(nl)]
        kind = "xy"  # objects are placed around the corridor's edges
    elif kind == "xy":
        p["max_x_position_list"] = [round(r.uniform(0.3, 1.0) * wide, 1) for _ in range(nl)]
        p["max_y_position_list"] = [round(r.uniform(0.3, 1.0) * wide, 1) for _ in range(nl)]
    elif kind == "ring":
        p["max_distance_list"] = [round(r.uniform(0.4, 1.0) * wide, 1) for _ in range(nl)]
        if r.random() < 0.8:
            p["min_distance_list"] = [round(r.choice([0.0, r.uniform(0.05, 0.3) * wide]), 1) for _ in range(nl)]
    if r.random() < 0.5:
        p["min_point_numbers"] = [r.choice([0, 1, 5, 20]) for _ in range(nl)]
    if r.random() < 0.5:
        p["confidence_threshold_list"] = [round(r.uniform(0.0, 0.7), 2) if r.random() > 0.15 else 0.0 for _ in range(nl)]
    if r.random() < 0.35:
        p["ignore_attributes"] = r.choice([["vehicle.parked"], ["cycle"], ["occluded", "nothing"], ["vehicle.po"], [], ["adult"]])
    frame = r.choice(["base_link", "base_link", "map"])
    ego = ((r.uniform(-1e4, 1e4), r.uniform(-1e4, 1e4), r.uniform(-3, 3)) if r.random() < 0.5 else (r.uniform(-50, 50), r.uniform(-50, 50), 0.0), O.rand_yaw(r))
    with_tr = frame == "map" or r.random() < 0.3

    def place(lab: str) -> Tuple[float, float]:
        i = target.index(lab) if lab in target else r.randrange(nl)
        where = r.choice(["in", "in", "edge_in", "edge_out", "out"])
        if r.random() < 0.04:
            return 0.0, 0.0  # exactly above / below the ego origin: a planar distance of exactly zero is a distance
        if r.random() < 0.06 and kind in ("xy", "ring"):
            # exactly ON a bound of its label (strict bounds: outside)
            if kind == "xy":
                bx, by = p["max_x_position_list"][i], p["max_y_position_list"][i]
                return r.choice([(bx, r.uniform(0, 0.9) * by), (-bx, r.uniform(-0.9, 0) * by), (r.uniform(0, 0.9) * bx, by), (r.uniform(-0.9, 0.9) * bx, -by)])
            mx = p["max_distance_list"][i]
            mn = p.get("min_distance_list", [0.0] * nl)[i]
            d_ = mx if (r.random() < 0.5 or mn == 0) else mn
            return r.choice([(d_, 0.0), (0.0, -d_), (-d_, 0.0)])
        eps = r.choice([1e-4, 1e-2, 0.5])
        if kind == "xy":
            bx, by = p["max_x_position_list"][i], p["max_y_position_list"][i]
            sx, sy = r.choice([-1, 1]), r.choice([-1, 1])
            if where == "in":
                return sx * r.uniform(0, 0.9) * bx, sy * r.uniform(0, 0.9) * by
            if where == "edge_in":
                return (sx * (bx - eps), sy * r.uniform(0, 0.9) * by) if r.random() < 0.5 else (sx * r.uniform(0, 0.9) * bx, sy * (by - eps))
            if where == "edge_out":
                return (sx * (bx + eps), sy * r.uniform(0, 0.9) * by) if r.random() < 0.5 else (sx * r.uniform(0, 0.9) * bx, sy * (by + eps))
            return sx * r.uniform(1.05, 1.8) * bx, sy * r.uniform(0, 1.8) * by
        if kind == "ring":
            mx = p["max_distance_list"][i]
            mn = p.get("min_distance_list", [0.0] * nl)[i]
            ang = r.uniform(-math.pi, math.pi)
            if where == "in":
                d = r.uniform(mn + 0.05 * (mx - mn), mx - 0.05 * (mx - mn))
            elif where == "edge_in":
                d = mx - eps if (r.random() < 0.5 or mn == 0) else mn + eps
            elif where == "edge_out":
                d = mx + eps if (r.random() < 0.5 or mn == 0) else max(0.0, mn - eps)
            else:
                d = r.uniform(1.05, 1.8) * mx
            return d * math.cos(ang), d * math.sin(ang)
        return r.uniform(-wide, wide), r.uniform(-wide, wide)

    n = r.randint(0, 16)
    objs_gt, objs_est = [], []
    for k in range(n):
        lab = r.choice(pool + ["unknown", "false_positive"]) if r.random() < 0.4 else r.choice(target)
        x, y = place(lab)
        raw = r.choice(RAW_NAMES[lab])
        g = O.obj3d(x, y, r.uniform(-1, 1) if r.random() > 0.15 else r.choice([-1, 1]) * r.uniform(5.0, 20.0), O.rand_yaw(r), lab=lab, uuid=f"g{k}", npts=r.choice([0, 1, 4, 5, 19, 20, 100]), attributes=r.choice(ATTR_POOL), raw_name=raw)
        objs_gt.append(g)
        lab_e = r.choice(pool + ["unknown"]) if r.random() < 0.4 else (lab if lab != "false_positive" else r.choice(target))
        xe, ye = (x + r.gauss(0, 0.5), y + r.gauss(0, 0.5)) if r.random() < 0.7 else place(lab_e)
        objs_est.append(O.obj3d(xe, ye, 0.0 if r.random() > 0.15 else r.choice([-1, 1]) * r.uniform(5.0, 20.0), O.rand_yaw(r), lab=lab_e, score=round(r.random(), 3), uuid=f"e{k}", attributes=r.choice(ATTR_POOL), raw_name=r.choice(RAW_NAMES[lab_e])))
    for k in range(r.choice([0, 0, 1, 3])):
        # estimates beyond the number of ground truths: results without a ground truth
        lab_e = r.choice(pool + ["unknown"])
        xe, ye = place(lab_e)
        objs_est.append(O.obj3d(xe, ye, 0.0, O.rand_yaw(r), lab=lab_e, score=round(r.random(), 3), uuid=f"x{k}", attributes=r.choice(ATTR_POOL), raw_name=r.choice(RAW_NAMES[lab_e])))
    if frame == "map":
        objs_gt = [O.to_map(o, *ego) for o in objs_gt]
        objs_est = [O.to_map(o, *ego) for o in objs_est]
        if r.random() < 0.15:
            # map coordinates given as whole numbers (Python ints): numbers like any other
            for o in objs_gt + objs_est:
                o.state.position = tuple(int(round(float(v))) for v in o.state.position)
    if with_tr:
        p["transforms"] = O.transforms_for(*ego)
        if frame != "map" and r.random() < 0.35:
            # an ego-frame list filtered with a registry that holds no ego pose: positions are already ego-relative
            from perception_eval.common.transform import TransformDict

            p["transforms"] = TransformDict()
    if r.random() < 0.3 and objs_gt:
        p_uuid = [o.uuid for o in r.sample(objs_gt, r.randint(1, len(objs_gt)))] + ["nobody"]
    else:
        p_uuid = None
    return dict(p=p, gts=objs_gt, ests=objs_est, uuids=p_uuid, kind=kind, frame=frame, wide=wide, target=target)


def widen(r: random.Random, p: Dict[str, Any]) -> Optional[Dict[str, Any]]:
    keys = [k for k in ("max_x_position_list", "max_y_position_list", "max_distance_list", "min_distance_list", "min_point_numbers", "confidence_threshold_list") if p.get(k) is not None]
    if not keys:
        return None
    k = r.choice(keys)
    q = dict(p)
    lst = list(p[k])
    j = r.randrange(len(lst))
    if k in ("min_distance_list", "min_point_numbers", "confidence_threshold_list"):
        lst[j] = max(0, lst[j] - r.choice([0.5, 1, 5])) if k != "confidence_threshold_list" else max(0.0, lst[j] - 0.2)
    else:
        lst[j] = lst[j] + r.choice([0.5, 5.0, 50.0])
    q[k] = lst
    return q


def run(ctx: Ctx) -> None:
    import perception_eval.manager.perception_evaluation_manager as mgr_mod
    from perception_eval.common.evaluation_task import EvaluationTask

    from ..scenario import run_manager_scenarios

    with Taps(ctx) as taps:
        install(taps, ctx)
        for idx in ctx.indices("direct", 500 if ctx.quick else 40000):
            r = ctx.rng("direct", idx)
            c = gen_case(r)
            p = c["p"]
            ctx.begin_case("direct", idx, kind=c["kind"], frame=c["frame"], n=len(c["gts"]))
            with ctx.case_guard("direct"):
                for is_gt, objs in ((True, c["gts"]), (False, c["ests"])):
                    kw = dict(p)
                    if is_gt and c["uuids"] is not None:
                        kw["target_uuids"] = c["uuids"]
                    out = _lib_of().filter_objects(objs, is_gt, **kw)
                    again = _lib_of().filter_objects(out, is_gt, **kw)
                    ctx.count("C10.idempotence_checked")
                    ctx.check(len(again) == len(out) and all(a is b for a, b in zip(again, out)), "C10/filter_not_idempotent", dict(is_gt=is_gt, n1=len(out), n2=len(again)), "filter_objects")
                    q = widen(r, kw)
                    if q is not None:
                        wide_out = _lib_of().filter_objects(objs, is_gt, **q)
                        ctx.count("C10.monotonicity_checked")
                        ids = {id(o) for o in wide_out}
                        # objects undecided at the narrow bound are excluded by construction of the widening step (>= 0.2)
                        ctx.check(all(id(o) in ids for o in out), "C10/widening_a_bound_removes_an_object", dict(is_gt=is_gt, narrow=len(out), wide=len(wide_out), changed=[k for k in q if q[k] is not kw.get(k)]), "filter_objects")
                # results
                res = _lib_or().get_object_results(EvaluationTask.DETECTION, c["ests"], c["gts"], target_labels=p["target_labels"], transforms=p.get("transforms") or (O.transforms_for((0, 0, 0), 0.0) if c["frame"] == "map" else None))
                if r.random() < 0.5:
                    r.shuffle(res)  # any order (concatenated frames, confidence-sorted lists): the sub-list keeps it
                kw = dict(p)
                if c["uuids"] is not None and r.random() < 0.5:
                    kw["target_uuids"] = c["uuids"]
                out = _lib_of().filter_object_results(res, **kw)
                again = _lib_of().filter_object_results(out, **kw)
                ctx.count("C10.idempotence_checked")
                ctx.check(len(again) == len(out) and all(a is b for a, b in zip(again, out)), "C10/filter_not_idempotent", dict(fn="filter_object_results", n1=len(out), n2=len(again)), "filter_object_results")
                q = widen(r, kw)
                if q is not None:
                    wide_out = _lib_of().filter_object_results(res, **q)
                    ctx.count("C10.monotonicity_checked")
                    ids = {id(o) for o in wide_out}
                    ctx.check(all(id(o) in ids for o in out), "C10/widening_a_bound_removes_an_object", dict(fn="filter_object_results", narrow=len(out), wide=len(wide_out)), "filter_object_results")
        # 2D lists (no position: only label / confidence / uuid criteria apply)
        for idx in ctx.indices("direct2d", 300 if ctx.quick else 5000):
            r = ctx.rng("direct2d", idx)
            if r.random() < 0.5:
                family, enum, pool = "autoware", AutowareLabel, ["car", "bus", "pedestrian", "bicycle"]
            else:
                from perception_eval.common.label import TrafficLightLabel

                family, enum, pool = "traffic_light", TrafficLightLabel, ["green", "red", "yellow", "traffic_light"]
            names = r.sample(pool, r.randint(1, 3)) + (["unknown"] if r.random() < 0.5 else [])
            labels = [enum(t) for t in names]
            objs = [O.obj2d((r.randint(0, 500), r.randint(0, 500), r.randint(1, 100), r.randint(1, 100)) if r.random() < 0.7 else None, r.choice(pool + ["unknown", "unknown", "false_positive"]), family=family, score=round(r.random(), 2), uuid=f"u{k}") for k in range(r.randint(0, 10))]
            for o in objs:
                if r.random() < 0.3:
                    o.semantic_label.attributes = r.choice([["occluded"], ["x"]])
            ctx.begin_case("direct2d", idx, n=len(objs))
            with ctx.case_guard("direct2d"):
                kw = dict(target_labels=labels)
                if r.random() < 0.6:
                    kw["confidence_threshold_list"] = [round(r.uniform(0, 0.8), 2) for _ in labels]
                is_gt = r.random() < 0.5
                if is_gt and r.random() < 0.5 and objs:
                    kw["target_uuids"] = [o.uuid for o in r.sample(objs, r.randint(1, len(objs)))]
                if r.random() < 0.4:
                    kw["ignore_attributes"] = r.choice([["occluded"], ["gre"], []])
                if idx % 3 == 0 and objs:
                    # 2D objects that carry a 3D position in their camera's frame (traffic lights from the map, projected
                    # detections): the range criteria apply to them through the camera's extrinsics in the registry
                    from perception_eval.common.schema import FrameID
                    from perception_eval.common.transform import HomogeneousMatrix, TransformDict
                    from pyquaternion import Quaternion as _Q

                    q_cam = G.quat_mul(G.quat_from_yaw(r.uniform(-math.pi, math.pi)), (0.5, -0.5, 0.5, -0.5))
                    t_cam = (r.uniform(-2, 3), r.uniform(-1, 1), r.uniform(0.5, 3))
                    M = G.homogeneous(t_cam, q_cam)  # camera -> ego
                    Minv = G.inv_rigid(M)
                    for o in objs:
                        if r.random() < 0.85:
                            rad, ang = r.uniform(0, 90), r.uniform(-math.pi, math.pi)
                            pe = np.array([rad * math.cos(ang), rad * math.sin(ang), r.uniform(0, 6), 1.0])
                            o.state.position = tuple(float(v) for v in (Minv @ pe)[:3])
                    if r.random() < 0.5:
                        reg = HomogeneousMatrix(np.array(t_cam), _Q(*q_cam), src=FrameID.CAM_FRONT, dst=FrameID.BASE_LINK)
                    else:
                        reg = HomogeneousMatrix(Minv[:3, 3].copy(), _Q(matrix=Minv[:3, :3], atol=1e-6), src=FrameID.BASE_LINK, dst=FrameID.CAM_FRONT)
                    kw["transforms"] = TransformDict([reg])
                    if r.random() < 0.5:
                        kw["max_distance_list"] = [round(r.uniform(20, 90), 1) for _ in labels]
                        if r.random() < 0.6:
                            kw["min_distance_list"] = [round(r.uniform(0, 15), 1) for _ in labels]
                    else:
                        kw["max_x_position_list"] = [round(r.uniform(20, 90), 1) for _ in labels]
                        kw["max_y_position_list"] = [round(r.uniform(20, 90), 1) for _ in labels]
                    ctx.count("C10.positioned_2d_cases")
                out2d = _lib_of().filter_objects(objs, is_gt, **kw)
                if "transforms" in kw:
                    ctx.count("C10.positioned_2d_removed_by_range", sum(1 for o in objs if o.state.position is not None) - sum(1 for o in out2d if o.state.position is not None))
        run_manager_scenarios(ctx, "scenario", 30 if ctx.quick else 2000)
        ctx.notes["taps"] = taps.installed
