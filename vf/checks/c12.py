"""C12 - sensing counts exactly the points inside each box; every object classified once."""
from __future__ import annotations

import math
from typing import Any, Dict, List, Optional, Sequence, Tuple

import numpy as np

from perception_eval.common import object as object_mod
from perception_eval.common import point as point_mod
from perception_eval.common.schema import Visibility
from perception_eval.evaluation.sensing import sensing_frame_result as sfr_mod
from perception_eval.evaluation.sensing import sensing_result as sr_mod
from perception_eval.evaluation.sensing.sensing_frame_config import SensingFrameConfig

from ..core import Ctx, Taps, guarded
from ..gen import dataset as D
from ..gen import objects as O
from ..oracles import geometry as G

LEVEL_TEXT = (
    "Held on every crop and every sensing frame evaluated under the monitor: crop_pointcloud (every alias), "
    "DynamicObject.crop_pointcloud, DynamicObjectWithSensingResult.__init__, SensingFrameResult.evaluate_frame and "
    "SensingEvaluationManager.add_frame_result are tapped. Every cloud carries a unique id per row, so the returned rows "
    "identify exactly which points were selected; they are compared with an analytic inside test (box frame for boxes, ray "
    "casting for prisms - a different algorithm from the library's winding number); inside/outside partition and growth "
    "with the scale are decided by second executions; per frame every ground truth must land in exactly one of "
    "success/fail/warning consistently with its point count and visibility, and non-detection failures must be the points "
    "inside a prism and outside every scaled box. Workloads include the real sensing manager on generated datasets with point clouds."
)
LEVEL_NOTE = "Points within 1e-7 (absolute, relative to a unit box) of a box face or prism edge are not judged and counted."
TECHNIQUE = "runtime monitoring: taps on crop_pointcloud / DynamicObject.crop_pointcloud / sensing result and frame classes + analytic point-in-box / ray-casting oracle with unique-row-id histories"
RULE = (
    "boxes of any pose and size x scales 0.5..3 and distance dependent x clouds of 0..20k points with 3..5 columns (points well "
    "inside, well outside, near faces, far away); convex and concave prisms in both vertex orientations; sensing frames with "
    "min-point thresholds 0..50 and all visibility levels; sensing manager runs on generated T4 datasets with .pcd.bin clouds. "
    "non-trivial = cloud with points both inside and outside; distinct = (workload, columns, scale class, prism kind / visibility mix, inside?, outside?)"
)
ASSUMPTIONS = ["boxes are upright (yaw only)", "prisms are simple polygons with identical upper and lower planes"]
DECIDING = ["crop_pointcloud.judged", "DynamicObject.crop_pointcloud.judged", "C12.partition_checked", "C12.scale_growth_checked", "SensingFrameResult.judged", "C12.status.success", "C12.status.fail", "C12.status.warning", "C12.non_detection_judged", "C12.manager_frames", "C12.clouds_with_inside_and_outside", "SensingEvaluationManager.crop_pointcloud.judged", "C12.outline_objects_checked"]
JOBS = {"quick": 4, "thorough": 14}
EPS = 1e-7


def row_ids(pc: np.ndarray) -> Optional[np.ndarray]:
    """Unique ids in the last column (workloads put them there)."""
    if pc.ndim != 2 or pc.shape[1] < 4:
        return None
    ids = pc[:, -1]
    if len(np.unique(ids)) != len(ids):
        return None
    return ids


def selected_mask(pc: np.ndarray, out: np.ndarray) -> Optional[np.ndarray]:
    ids = row_ids(pc)
    if ids is None:
        return None
    return np.isin(ids, out[:, -1]) if len(out) else np.zeros(len(pc), dtype=bool)


def prism_verdicts(pc: np.ndarray, area: Sequence[Sequence[float]]) -> Tuple[np.ndarray, np.ndarray]:
    """(inside, decided) per point for a 3D-polygon area given as N upper + N lower vertices."""
    n = len(area) // 2
    poly = [(float(area[i][0]), float(area[i][1])) for i in range(n)]
    zs = [float(v[2]) for v in area]
    zmin, zmax = min(zs), max(zs)
    inside = np.zeros(len(pc), dtype=bool)
    decided = np.ones(len(pc), dtype=bool)
    for k in range(len(pc)):
        x, y = float(pc[k, 0]), float(pc[k, 1])
        ins = G.point_in_polygon(x, y, poly)
        if G.dist_point_to_polygon_edges(x, y, poly) < EPS:
            decided[k] = False
        if pc.shape[1] >= 3:
            z = float(pc[k, 2])
            if min(abs(z - zmin), abs(z - zmax)) < EPS:
                decided[k] = False
            ins = ins and (zmin <= z <= zmax)
        inside[k] = ins
    return inside, decided


def box_verdicts(pc: np.ndarray, box: Tuple, scale: float) -> Tuple[np.ndarray, np.ndarray]:
    inside = np.zeros(len(pc), dtype=bool)
    decided = np.ones(len(pc), dtype=bool)
    for k in range(len(pc)):
        ins, m = G.point_in_box(pc[k, : min(3, pc.shape[1])], box, scale)
        inside[k] = ins
        decided[k] = m >= EPS
    return inside, decided


def judge_selection(ctx: Ctx, tap: str, pc: np.ndarray, out: np.ndarray, exp_inside: np.ndarray, decided: np.ndarray, want_inside: bool, info: Dict[str, Any]) -> None:
    ctx.count(f"{tap}.judged")
    ctx.check(out.ndim == 2 and out.shape[1] == pc.shape[1] if len(out) else True, "C12/cropped_cloud_changes_columns", dict(info, in_shape=pc.shape, out_shape=out.shape), tap)
    sel = selected_mask(pc, out)
    if sel is None:
        ctx.count(f"{tap}.no_row_ids")
        n_exp_lo = int(((exp_inside == want_inside) & decided).sum())
        n_exp_hi = n_exp_lo + int((~decided).sum())
        ctx.check(n_exp_lo <= len(out) <= n_exp_hi, "C12/selected_point_count_differs_from_geometry", dict(info, n_out=len(out), expected=(n_exp_lo, n_exp_hi)), tap)
        return
    ctx.check(int(sel.sum()) == len(out), "C12/cropped_cloud_contains_alien_or_duplicate_rows", dict(info, n_out=len(out), matched=int(sel.sum())), tap)
    exp_sel = exp_inside if want_inside else ~exp_inside
    wrong = (sel != exp_sel) & decided
    if (~decided).any():
        ctx.count(f"{tap}.skipped_boundary", int((~decided).sum()))
    if wrong.any():
        k = int(np.argmax(wrong))
        ctx.violation("C12/inside_selection_differs_from_geometry" if want_inside else "C12/outside_selection_differs_from_geometry", dict(info, point=pc[k].tolist(), selected=bool(sel[k]), expected=bool(exp_sel[k]), n_wrong=int(wrong.sum())), tap=tap)
    else:
        ctx.count(f"{tap}.checked")


def install(taps: Taps, ctx: Ctx) -> None:
    def crop_factory(orig):
        def crop_pointcloud(pointcloud, area, inside=True):
            out = orig(pointcloud, area, inside)

            def j():
                ins, dec = prism_verdicts(pointcloud, area)
                judge_selection(ctx, "crop_pointcloud", pointcloud, out, ins, dec, bool(inside), dict(n=len(pointcloud), n_vertices=len(area) // 2, inside=bool(inside)))

            if len(pointcloud) <= 4000:  # per-point python oracle; big clouds are judged through the box tap (vectorised there)
                guarded(ctx, "crop_pointcloud", j)
            else:
                ctx.count("crop_pointcloud.skipped_large")
            return out

        return crop_pointcloud

    taps.fn(point_mod, "crop_pointcloud", crop_factory)

    def obj_factory(orig):
        def crop_pointcloud(self, pointcloud, bbox_scale=1.0, inside=True):
            out = orig(self, pointcloud, bbox_scale, inside)

            def j():
                ins, dec = object_verdicts(pointcloud, self, bbox_scale)
                judge_selection(ctx, "DynamicObject.crop_pointcloud", pointcloud, out, ins, dec, bool(inside), dict(n=len(pointcloud), box=O.box_of(self), scale=bbox_scale, inside=bool(inside)))

            guarded(ctx, "DynamicObject.crop_pointcloud", j)
            return out

        return crop_pointcloud

    taps.method(object_mod.DynamicObject, "crop_pointcloud", obj_factory, tapname="DynamicObject.crop_pointcloud")

    def res_factory(orig):
        def __init__(self, ground_truth_object, pointcloud, scale_factor, min_points_threshold):
            orig(self, ground_truth_object, pointcloud, scale_factor, min_points_threshold)

            def j():
                tap = "DynamicObjectWithSensingResult"
                ins, dec = box_verdicts_fast(pointcloud, O.box_of(ground_truth_object), scale_factor)
                lo, hi = int((ins & dec).sum()), int((ins & dec).sum() + (~dec).sum())
                info = dict(n_inside=self.inside_pointcloud_num, expected=(lo, hi), min_points=min_points_threshold, visibility=repr(ground_truth_object.visibility))
                ctx.check(lo <= self.inside_pointcloud_num <= hi and self.inside_pointcloud_num == len(self.inside_pointcloud), "C12/inside_point_count_differs_from_geometry", info, tap)
                ctx.check(self.is_detected == (self.inside_pointcloud_num >= min_points_threshold), "C12/detected_flag_inconsistent_with_point_count", info, tap)
                vis = ground_truth_object.visibility
                none = vis is Visibility.NONE or (isinstance(vis, str) and vis in ("none", "NONE"))
                ctx.check(bool(self.is_occluded) == (vis is Visibility.NONE), "C12/occluded_flag_not_visibility_none", info, tap)
                if self.inside_pointcloud_num > 0 and lo == hi:
                    pts = pointcloud[ins][:, :3]
                    d = np.linalg.norm(pts, axis=1)
                    ctx.check(self.nearest_point is not None and abs(float(np.linalg.norm(self.nearest_point)) - float(d.min())) <= 1e-9, "C12/nearest_point_not_nearest_inside_point", info, tap)

            guarded(ctx, "DynamicObjectWithSensingResult", j)

        return __init__

    taps.method(sr_mod.DynamicObjectWithSensingResult, "__init__", res_factory, tapname="DynamicObjectWithSensingResult")

    def frame_factory(orig):
        def evaluate_frame(self, ground_truth_objects, pointcloud_for_detection, pointcloud_for_non_detection):
            out = orig(self, ground_truth_objects, pointcloud_for_detection, pointcloud_for_non_detection)
            guarded(ctx, "SensingFrameResult", lambda: judge_frame(ctx, self, list(ground_truth_objects), pointcloud_for_detection, list(pointcloud_for_non_detection)))
            return out

        return evaluate_frame

    taps.method(sfr_mod.SensingFrameResult, "evaluate_frame", frame_factory, tapname="SensingFrameResult")

    def mgr_crop_factory(orig):
        def crop_pointcloud(self, ground_truth_objects, pointcloud, non_detection_areas, transforms=None):
            out = orig(self, ground_truth_objects, pointcloud, non_detection_areas, transforms)

            def j():
                tap = "SensingEvaluationManager.crop_pointcloud"
                ctx.count(f"{tap}.judged")
                if row_ids(pointcloud) is None or len(pointcloud) > 4000:
                    ctx.count(f"{tap}.no_row_ids")
                    return
                s0 = self.evaluator_config.metrics_params["box_scale_0m"]
                s100 = self.evaluator_config.metrics_params["box_scale_100m"]
                ctx.check(len(out) == len(non_detection_areas), "C12/one_cloud_per_non_detection_area", dict(n_out=len(out), n_areas=len(non_detection_areas)), tap)
                for area, got in zip(non_detection_areas, out):
                    insp, decp = prism_verdicts(pointcloud, area)
                    keep, und = insp.copy(), ~decp
                    for o in ground_truth_objects:
                        if O.frame_of(o) != "base_link":
                            return  # ego-relative geometry only
                        scale = s0 + 0.01 * (s100 - s0) * float(np.linalg.norm(O.box_of(o)[:3]))
                        ins, dec = box_verdicts_fast(pointcloud, O.box_of(o), scale)
                        keep &= ~ins
                        und |= ~dec
                    if und.any():
                        ctx.count(f"{tap}.skipped_boundary")
                        continue
                    exp = set(pointcloud[keep][:, -1].tolist())
                    ctx.count(f"{tap}.checked")
                    ctx.check(set(got[:, -1].tolist()) == exp and len(got) == len(exp), "C12/non_detection_cloud_not_points_in_area_outside_every_box", dict(n_objects=len(ground_truth_objects), reported=len(got), expected=len(exp)), tap)

            guarded(ctx, "SensingEvaluationManager.crop_pointcloud", j)
            return out

        return crop_pointcloud

    from perception_eval.manager import sensing_evaluation_manager as sem_mod

    taps.method(sem_mod.SensingEvaluationManager, "crop_pointcloud", mgr_crop_factory, tapname="SensingEvaluationManager.crop_pointcloud")


def outline_of(o: Any) -> Optional[List[Tuple[float, float]]]:
    """The object's own outline (object coordinates) when it is NOT the rectangle centred on the origin that its size
    implies (a POLYGON shape, or a box annotated from a corner / hitch); None for the ordinary centred box."""
    fp = getattr(o.state, "footprint", None)
    if fp is None:
        return None
    pts = [(float(c[0]), float(c[1])) for c in list(fp.exterior.coords)[:-1]]
    w, l = float(o.state.size[0]), float(o.state.size[1])
    rect = [(l / 2, w / 2), (-l / 2, w / 2), (-l / 2, -w / 2), (l / 2, -w / 2)]
    if len(pts) == 4 and all(abs(a[0] - b[0]) < 1e-12 and abs(a[1] - b[1]) < 1e-12 for a, b in zip(pts, rect)):
        return None
    return pts


def object_verdicts(pc: np.ndarray, o: Any, scale: float) -> Tuple[np.ndarray, np.ndarray]:
    """(inside, decided) for any object: its outline scaled ABOUT THE OBJECT'S ORIGIN, turned by its yaw and moved to its
    position, between bottom and top."""
    pts = outline_of(o)
    box = O.box_of(o)
    q = o.state.orientation
    tilted = abs(q.x) > 1e-12 or abs(q.y) > 1e-12
    if pts is None and not tilted:
        return box_verdicts_fast(pc, box, scale)
    if pts is None:
        w_, l_ = float(o.state.size[0]), float(o.state.size[1])
        pts = [(l_ / 2, w_ / 2), (-l_ / 2, w_ / 2), (-l_ / 2, -w_ / 2), (l_ / 2, -w_ / 2)]
    # outline points turned by the object's full orientation (a tilted box shows a sheared outline from above), moved to
    # its position; the vertical extent stays position +- height / 2
    Rm = G.quat_to_matrix((q.w, q.x, q.y, q.z))
    poly = [(box[0] + float(Rm[0, 0] * x * scale + Rm[0, 1] * y * scale), box[1] + float(Rm[1, 0] * x * scale + Rm[1, 1] * y * scale)) for x, y in pts]
    inside = np.zeros(len(pc), dtype=bool)
    decided = np.ones(len(pc), dtype=bool)
    for k in range(len(pc)):
        x, y = float(pc[k, 0]), float(pc[k, 1])
        ins = G.point_in_polygon(x, y, poly)
        if G.dist_point_to_polygon_edges(x, y, poly) < EPS:
            decided[k] = False
        if pc.shape[1] >= 3:
            bz = float(pc[k, 2]) - box[2]
            ins = ins and abs(bz) <= box[6] / 2.0
            if abs(abs(bz) - box[6] / 2.0) < EPS:
                decided[k] = False
        inside[k] = ins
    return inside, decided


def box_verdicts_fast(pc: np.ndarray, box: Tuple, scale: float) -> Tuple[np.ndarray, np.ndarray]:
    """Vectorised analytic box-frame test (same definition as geometry.point_in_box)."""
    cx, cy, cz, yaw, w, l, h = box
    if len(pc) == 0:
        return np.zeros(0, dtype=bool), np.ones(0, dtype=bool)
    dx, dy = pc[:, 0].astype(float) - cx, pc[:, 1].astype(float) - cy
    c, s = math.cos(yaw), math.sin(yaw)
    bx, by = c * dx + s * dy, -s * dx + c * dy
    hx, hy = l * scale / 2.0, w * scale / 2.0
    inside = (np.abs(bx) < hx) & (np.abs(by) < hy)
    margin = np.minimum(np.abs(np.abs(bx) - hx), np.abs(np.abs(by) - hy))
    if pc.shape[1] >= 3:
        bz = pc[:, 2].astype(float) - cz
        inside &= np.abs(bz) <= h / 2.0
        margin = np.minimum(margin, np.abs(np.abs(bz) - h / 2.0))
    return inside, margin >= EPS


def judge_frame(ctx: Ctx, fr: Any, gts: List[Any], pc: np.ndarray, non_det: List[np.ndarray]) -> None:
    tap = "SensingFrameResult"
    ctx.count("SensingFrameResult.judged")
    cfg = fr.sensing_frame_config
    buckets = {"success": fr.detection_success_results, "fail": fr.detection_fail_results, "warning": fr.detection_warning_results}
    where: Dict[int, List[str]] = {}
    for name, lst in buckets.items():
        for r in lst:
            where.setdefault(id(r.ground_truth_object), []).append(name)
            if lst:
                ctx.count(f"C12.status.{name}")
    info = dict(n_gt=len(gts), success=len(buckets["success"]), fail=len(buckets["fail"]), warning=len(buckets["warning"]))
    for g in gts:
        w = where.get(id(g), [])
        ctx.check(len(w) == 1, "C12/ground_truth_not_classified_exactly_once", dict(info, gt=O.describe(g), statuses=w), tap)
        if len(w) != 1:
            continue
        exp_warning = g.visibility is Visibility.NONE
        ctx.check((w[0] == "warning") == exp_warning, "C12/warning_status_not_visibility_none", dict(info, gt=O.describe(g), visibility=repr(g.visibility), status=w[0]), tap)
        if not exp_warning:
            scale = cfg.box_scale_0m + 0.01 * (cfg.box_scale_100m - cfg.box_scale_0m) * float(np.linalg.norm(O.box_of(g)[:3]))
            ins, dec = box_verdicts_fast(pc, O.box_of(g), scale)
            lo, hi = int((ins & dec).sum()), int((ins & dec).sum() + (~dec).sum())
            if lo >= cfg.min_points_threshold:
                ctx.check(w[0] == "success", "C12/object_with_enough_points_not_detected", dict(info, gt=O.describe(g), n_inside=(lo, hi), min_points=cfg.min_points_threshold, scale=scale), tap)
            elif hi < cfg.min_points_threshold:
                ctx.check(w[0] == "fail", "C12/object_without_enough_points_reported_detected", dict(info, gt=O.describe(g), n_inside=(lo, hi), min_points=cfg.min_points_threshold, scale=scale), tap)
    ctx.check(sum(len(v) for v in buckets.values()) == len(gts), "C12/ground_truth_not_classified_exactly_once", info, tap)
    # non-detection failures: exactly the points of each area cloud that are outside every scaled box
    reported = list(fr.pointcloud_failed_non_detection)
    expected_sets = []
    ok_ids = True
    for cloud in non_det:
        if row_ids(cloud) is None and len(cloud):
            ok_ids = False
            break
        keep = np.ones(len(cloud), dtype=bool)
        undecided = np.zeros(len(cloud), dtype=bool)
        for g in gts:
            scale = cfg.box_scale_0m + 0.01 * (cfg.box_scale_100m - cfg.box_scale_0m) * float(np.linalg.norm(O.box_of(g)[:3]))
            ins, dec = box_verdicts_fast(cloud, O.box_of(g), scale)
            keep &= ~ins
            undecided |= ~dec
        if undecided.any():
            ok_ids = False
            ctx.count("SensingFrameResult.skipped_boundary")
            break
        ids = set(cloud[keep][:, -1].tolist())
        if ids:
            expected_sets.append(ids)
    if ok_ids:
        ctx.count("C12.non_detection_judged")
        got_sets = [set(a[:, -1].tolist()) for a in reported]
        ctx.check(len(got_sets) == len(expected_sets) and all(a == b for a, b in zip(got_sets, expected_sets)), "C12/non_detection_failures_not_points_outside_every_box", dict(info, reported=[len(s) for s in got_sets], expected=[len(s) for s in expected_sets]), tap)


# ---------------------------------------------------------------------------------------
# workload helpers
# ---------------------------------------------------------------------------------------
def cloud_around(r, box: Tuple, n: int, cols: int, scale: float = 1.0) -> np.ndarray:
    cx, cy, cz, yaw, w, l, h = box
    pts = np.zeros((n, cols), dtype=float)
    c, s = math.cos(yaw), math.sin(yaw)
    for k in range(n):
        kind = r.random()
        if kind < 0.35:  # well inside
            bx, by, bz = r.uniform(-0.45, 0.45) * l * scale, r.uniform(-0.45, 0.45) * w * scale, r.uniform(-0.45, 0.45) * h
        elif kind < 0.6:  # near a face (just inside / just outside)
            m = r.choice([1e-3, 1e-2, 1e-5]) * r.choice([-1, 1])
            bx, by, bz = r.uniform(-0.45, 0.45) * l * scale, r.uniform(-0.45, 0.45) * w * scale, r.uniform(-0.45, 0.45) * h
            ax = r.choice("xyz")
            if ax == "x":
                bx = r.choice([-1, 1]) * (l * scale / 2 + m)
            elif ax == "y":
                by = r.choice([-1, 1]) * (w * scale / 2 + m)
            else:
                bz = r.choice([-1, 1]) * (h / 2 + m)
        elif kind < 0.9:  # around
            bx, by, bz = r.uniform(-2, 2) * l * scale, r.uniform(-2, 2) * w * scale, r.uniform(-2, 2) * h
        else:  # far
            bx, by, bz = r.uniform(-100, 100), r.uniform(-100, 100), r.uniform(-5, 5)
        pts[k, 0] = cx + c * bx - s * by
        pts[k, 1] = cy + s * bx + c * by
        if cols >= 3:
            pts[k, 2] = cz + bz
    if cols >= 4:
        for j in range(3, cols - 1):
            pts[:, j] = [r.random() for _ in range(n)]
        pts[:, -1] = np.arange(n, dtype=float) + 1000.0
    return pts


def gen_prism(r) -> Tuple[List[Tuple[float, float, float]], str]:
    kind = r.choice(["rect", "convex", "concave", "concave"])
    cx, cy = r.uniform(-30, 30), r.uniform(-30, 30)
    if kind == "rect":
        a, b = r.uniform(1, 15), r.uniform(1, 15)
        poly = [(cx + a, cy + b), (cx + a, cy - b), (cx - a, cy - b), (cx - a, cy + b)]
    else:
        n = r.randint(3, 9)
        angs = sorted(r.uniform(0, 2 * math.pi) for _ in range(n))
        if kind == "convex":
            rad = [r.uniform(8, 10)] * n
        else:
            rad = [r.uniform(2, 12) for _ in range(n)]
        poly = [(cx + rr * math.cos(a), cy + rr * math.sin(a)) for a, rr in zip(angs, rad)]
    if r.random() < 0.5:
        poly = list(reversed(poly))
        kind += "_cw" if G.polygon_area(poly) < 0 else "_ccw"
    else:
        kind += "_cw" if G.polygon_area(poly) < 0 else "_ccw"
    z0, z1 = sorted([r.uniform(-2, 1), r.uniform(1.5, 5)])
    # the second plane is the same polygon; it may be written starting from another corner or in the other sense of rotation
    second = list(poly)
    how = r.choice(["same", "same", "rotated", "reversed"])
    if how != "same":
        k = r.randrange(len(poly))
        second = second[k:] + second[:k]
        if how == "reversed":
            second = list(reversed(second))
        kind += "_2nd_" + how
    lower = [(x, y, z0) for x, y in poly]
    upper = [(x, y, z1) for x, y in second]
    if r.random() < 0.5:
        return lower + upper, kind
    return [(x, y, z1) for x, y in poly] + [(x, y, z0) for x, y in second], kind


def run(ctx: Ctx) -> None:
    with Taps(ctx) as taps:
        install(taps, ctx)
        # ---- (1) prisms
        for idx in ctx.indices("prisms", 120 if ctx.quick else 8000):
            r = ctx.rng("prisms", idx)
            area, kind = gen_prism(r)
            n = r.choice([0, 1, 50, 300, 1500])
            cols = r.choice([2, 3, 4, 5])
            xs = [v[0] for v in area]
            ys = [v[1] for v in area]
            pc = np.zeros((n, cols))
            pc[:, 0] = [r.uniform(min(xs) - 5, max(xs) + 5) for _ in range(n)]
            pc[:, 1] = [r.uniform(min(ys) - 5, max(ys) + 5) for _ in range(n)]
            if cols >= 3:
                pc[:, 2] = [r.uniform(-4, 7) for _ in range(n)]
            if cols >= 4:
                pc[:, -1] = np.arange(n) + 10.0
            ctx.begin_case("prisms", idx, kind=kind, n=n, cols=cols)
            with ctx.case_guard("prisms"):
                a = point_mod.crop_pointcloud(pc, area, inside=True)
                b = point_mod.crop_pointcloud(pc, area, inside=False)
                ctx.count("C12.partition_checked")
                ctx.check(len(a) + len(b) == n, "C12/inside_and_outside_do_not_partition_the_cloud", dict(kind=kind, n=n, inside=len(a), outside=len(b)), "crop_pointcloud")
                if len(a) and len(b):
                    ctx.count("C12.clouds_with_inside_and_outside")
                ctx.case(("prism", kind, cols, len(a) > 0, len(b) > 0), nontrivial=len(a) > 0 and len(b) > 0, sample=dict(kind=kind, n=n, cols=cols, inside=len(a), outside=len(b)) if idx < 3 else None)
        # ---- (2) boxes
        for idx in ctx.indices("boxes", 200 if ctx.quick else 15000):
            r = ctx.rng("boxes", idx)
            size = O.rand_size(r) if r.random() < 0.2 else (r.uniform(0.4, 3), r.uniform(0.4, 8), r.uniform(0.5, 3))
            box = (r.uniform(-80, 80), r.uniform(-80, 80), r.uniform(-2, 2), O.rand_yaw(r), *size)
            scale = r.choice([0.5, 1.0, 1.0, 1.3, 2.0, 3.0])
            cols = r.choice([3, 4, 5])
            n = r.choice([0, 1, 30, 400, 3000] + ([] if ctx.quick else [20000]))
            pc = cloud_around(r, box, n, cols, scale)
            obj = O.obj3d(*box)
            ctx.begin_case("boxes", idx, box=box, scale=scale, n=n, cols=cols)
            with ctx.case_guard("boxes"):
                a = obj.crop_pointcloud(pc, scale, inside=True)
                b = obj.crop_pointcloud(pc, scale, inside=False)
                ctx.count("C12.partition_checked")
                ctx.check(len(a) + len(b) == n, "C12/inside_and_outside_do_not_partition_the_cloud", dict(box=box, scale=scale, n=n, inside=len(a), outside=len(b)), "DynamicObject.crop_pointcloud")
                if cols >= 4 and n:
                    ctx.check(not (set(a[:, -1].tolist()) & set(b[:, -1].tolist())), "C12/inside_and_outside_overlap", dict(box=box, scale=scale), "DynamicObject.crop_pointcloud")
                    bigger = scale * r.choice([1.01, 1.5, 3.0])
                    a2 = obj.crop_pointcloud(pc, bigger, inside=True)
                    ctx.count("C12.scale_growth_checked")
                    ctx.check(set(a[:, -1].tolist()) <= set(a2[:, -1].tolist()), "C12/enlarging_scale_removes_inside_point", dict(box=box, scale=scale, bigger=bigger, n_small=len(a), n_big=len(a2)), "DynamicObject.crop_pointcloud")
                    ctx.check(obj.get_inside_pointcloud_num(pc, scale) == len(a) and obj.point_exist(pc, scale) == (len(a) > 0), "C12/inside_count_helpers_inconsistent", dict(box=box), "DynamicObject.crop_pointcloud")
                if len(a) and len(b):
                    ctx.count("C12.clouds_with_inside_and_outside")
                ctx.case(("box", cols, scale, "sliver" if min(size[:2]) < 0.05 else "huge" if max(size[:2]) > 50 else "normal", len(a) > 0, len(b) > 0), nontrivial=len(a) > 0 and len(b) > 0)
        # ---- (3) sensing frames, direct
        for idx in ctx.indices("frames", 80 if ctx.quick else 20000):
            r = ctx.rng("frames", idx)
            n_obj = r.randint(0, 6)
            objs, clouds = [], []
            s0, s100 = r.choice([(1.0, 1.0), (1.2, 1.5), (0.8, 2.0)])
            for k in range(n_obj):
                ext = 60 if r.random() < 0.75 else 170  # also objects well beyond 100 m: the scale keeps growing linearly there
                box = (r.uniform(-ext, ext), r.uniform(-ext, ext), r.uniform(-1, 1), O.rand_yaw(r), r.uniform(0.5, 2.5), r.uniform(0.5, 6), r.uniform(1, 3))
                vis = r.choice([Visibility.FULL, Visibility.MOST, Visibility.PARTIAL, Visibility.NONE, Visibility.UNAVAILABLE, None])
                objs.append(O.obj3d(*box, uuid=f"o{k}", visibility=vis))
                scale = s0 + 0.01 * (s100 - s0) * float(np.linalg.norm(box[:3]))
                clouds.append(cloud_around(r, box, r.choice([0, 0, 1, 3, 10, 60]), 4, scale))
            if objs and r.random() < 0.5:
                # a second object overlapping an existing one, with returns inside the shared region
                b0 = O.box_of(r.choice(objs))
                c_, s_ = math.cos(b0[3]), math.sin(b0[3])
                off = r.uniform(0.2, 0.8) * b0[4]
                box = (b0[0] - s_ * off, b0[1] + c_ * off, b0[2], G.wrap_pi(b0[3] + r.uniform(-0.2, 0.2)), b0[4], b0[5], b0[6])
                objs.insert(r.randrange(len(objs) + 1), O.obj3d(*box, uuid=f"ov{len(objs)}", visibility=Visibility.FULL))
                mid = ((b0[0] + box[0]) / 2, (b0[1] + box[1]) / 2, b0[2], b0[3], b0[4] * 0.2, b0[5] * 0.6, b0[6] * 0.6)
                clouds.append(cloud_around(r, mid, r.choice([3, 8, 60]), 4, 0.8))
                ctx.count("C12.overlapping_objects")
            pc = np.vstack(clouds) if clouds else np.zeros((0, 4))
            if len(pc):
                pc[:, -1] = np.arange(len(pc)) + 1.0
            cfg = SensingFrameConfig(target_uuids=None, box_scale_0m=s0, box_scale_100m=s100, min_points_threshold=r.choice([0, 1, 1, 2, 5, 50]))
            nd = []
            for _ in range(r.choice([0, 1, 2])):
                area, _k = gen_prism(r)
                m = r.choice([0, 20, 200])
                xs = [v[0] for v in area]
                ys = [v[1] for v in area]
                c = np.zeros((m, 4))
                c[:, 0] = [r.uniform(min(xs), max(xs)) for _ in range(m)]
                c[:, 1] = [r.uniform(min(ys), max(ys)) for _ in range(m)]
                c[:, 2] = [r.uniform(-1, 3) for _ in range(m)]
                c[:, 3] = np.arange(m) + 5000.0
                nd.append(c)
            if objs and r.random() < 0.7:
                # a non-detection cloud hugging the boxes: decides whether the *scaled* boxes are cut out
                near = []
                for o in r.sample(objs, min(len(objs), 3)):
                    b = O.box_of(o)
                    scale = s0 + 0.01 * (s100 - s0) * float(np.linalg.norm(b[:3]))
                    near.append(cloud_around(r, b, 40, 4, scale))
                c = np.vstack(near)
                c[:, 3] = np.arange(len(c)) + 9000.0
                nd.append(c)
            ctx.begin_case("frames", idx, n_obj=n_obj, n_points=len(pc), min_points=cfg.min_points_threshold)
            with ctx.case_guard("frames"):
                fr = sfr_mod.SensingFrameResult(cfg, 100, "0")
                fr.evaluate_frame(objs, pc, nd)
                vis_mix = tuple(sorted({str(o.visibility) for o in objs}))
                ctx.case(("frame", len(fr.detection_success_results) > 0, len(fr.detection_fail_results) > 0, len(fr.detection_warning_results) > 0, len(nd), vis_mix), nontrivial=n_obj > 0 and len(pc) > 0)
        # ---- (3b) objects whose outline is not the centred rectangle (POLYGON shapes, boxes annotated from one end)
        from perception_eval.common.shape import Shape, ShapeType
        from shapely.geometry import Polygon as _Polygon

        for idx in ctx.indices("outlines", 60 if ctx.quick else 6000):
            r = ctx.rng("outlines", idx)
            w, l, h = r.uniform(0.8, 2.5), r.uniform(2.0, 8.0), r.uniform(1.0, 3.0)
            kind = r.choice(["from_rear_end", "polygon_offcentre", "polygon_l_shape", "tilted_box", "tilted_box"])
            if kind == "tilted_box":
                pts, stype = [], ShapeType.BOUNDING_BOX
            elif kind == "from_rear_end":
                pts = [(l, w / 2), (0.0, w / 2), (0.0, -w / 2), (l, -w / 2)]
                stype = ShapeType.BOUNDING_BOX
            elif kind == "polygon_offcentre":
                ox, oy = r.uniform(-l, l), r.uniform(-w, w)
                pts = [(ox + l / 2, oy + w / 2), (ox - l / 2, oy + w / 2), (ox - l / 2, oy - w / 2), (ox + l / 2, oy - w / 2)]
                stype = ShapeType.POLYGON
            else:
                pts = [(l / 2, w / 2), (-l / 2, w / 2), (-l / 2, -w / 2), (0.0, -w / 2), (0.0, 0.0), (l / 2, 0.0)]
                stype = ShapeType.POLYGON
            if kind == "tilted_box":
                # an ordinary box on a slope / bank: pitch and roll next to the yaw
                o = O.obj3d(r.uniform(-40, 40), r.uniform(-40, 40), r.uniform(-1, 1), O.rand_yaw(r), w, l, h, uuid="outline", pitch=r.uniform(-0.3, 0.3), roll=r.uniform(-0.2, 0.2))
            else:
                o = O.obj3d(r.uniform(-40, 40), r.uniform(-40, 40), r.uniform(-1, 1), O.rand_yaw(r), w, l, h, uuid="outline")
                o.state.shape = Shape(stype, (w, l, h), _Polygon([(x, y, 0.0) for x, y in pts] + [(pts[0][0], pts[0][1], 0.0)]))
            scale = r.choice([1.0, 1.0, 0.7, 1.5, 2.2])
            box = O.box_of(o)
            n = r.choice([40, 200])
            pc = np.zeros((n, 4))
            c_, s_ = math.cos(box[3]), math.sin(box[3])
            for k in range(n):
                bx, by = r.uniform(-1.6, 1.6) * l * scale, r.uniform(-1.6, 1.6) * w * scale
                pc[k, 0], pc[k, 1], pc[k, 2] = box[0] + c_ * bx - s_ * by, box[1] + s_ * bx + c_ * by, box[2] + r.uniform(-0.8, 0.8) * h
            pc[:, 3] = np.arange(n) + 1.0
            ctx.begin_case("outlines", idx, kind=kind, scale=scale)
            with ctx.case_guard("outlines"):
                ins = o.crop_pointcloud(pc, bbox_scale=scale, inside=True)  # judged by the tap (outline oracle)
                outs = o.crop_pointcloud(pc, bbox_scale=scale, inside=False)
                ctx.count("C12.outline_objects_checked")
                ctx.check(len(ins) + len(outs) == len(pc), "C12/inside_and_outside_do_not_partition_the_cloud", dict(kind=kind, scale=scale, n=len(pc), inside=len(ins), outside=len(outs)), "DynamicObject.crop_pointcloud")
                ctx.case(("outline", kind, scale != 1.0), nontrivial=0 < len(ins) < len(pc))
        # ---- (4) the real sensing manager on a generated dataset
        from perception_eval.config import SensingEvaluationConfig
        from perception_eval.manager import SensingEvaluationManager

        for idx in ctx.indices("manager", 16 if ctx.quick else 2500):
            r = ctx.rng("manager", idx)
            n_s = r.randint(1, 3)
            samples, pcs, boxes_per = [], [], []
            ego = ((r.uniform(-500, 500), r.uniform(-500, 500), 0.0), O.rand_yaw(r))
            s0, s100 = r.choice([(1.0, 1.0), (1.1, 1.6)])
            for k in range(n_s):
                anns, clouds, boxes = [], [], []
                for j in range(r.randint(0, 5)):
                    box = (r.uniform(-50, 50), r.uniform(-50, 50), r.uniform(-0.5, 0.5), O.rand_yaw(r), r.uniform(0.5, 2.5), r.uniform(0.5, 6), r.uniform(1, 3))
                    if r.random() < 0.5:
                        # inside the non-detection area used below: its returns must be cut out of that area's cloud
                        box = (r.uniform(1.5, 10.5), r.uniform(-2.0, 2.0), r.uniform(0.0, 0.5), O.rand_yaw(r), r.uniform(0.5, 1.5), r.uniform(0.5, 2.5), r.uniform(1, 2))
                    pos, yaw = D.global_pose(ego[0], ego[1], box)
                    anns.append(D.Ann(inst=f"i{j}", category=r.choice(["car", "pedestrian", "bicycle"]), pos=pos, yaw=yaw, size=tuple(box[4:7]), npts=5, vis=r.choice(["full", "most", "partial", "none"])))
                    scale = s0 + 0.01 * (s100 - s0) * float(np.linalg.norm(box[:3]))
                    clouds.append(cloud_around(r, box, r.choice([0, 2, 20]), 4, scale))
                    boxes.append(box)
                extra = np.zeros((60, 4))
                extra[:, 0] = [r.uniform(0, 12) for _ in range(60)]
                extra[:, 1] = [r.uniform(-3, 3) for _ in range(60)]
                extra[:, 2] = [r.uniform(-1, 5) for _ in range(60)]
                pc = np.vstack(clouds + [extra])
                pc[:, 3] = np.arange(len(pc)) + 1.0  # intensity column doubles as a unique row id (exact in float32)
                samples.append(D.Sample(t=1_600_000_000_000_000 + k * 100_000, ego_pos=ego[0], ego_yaw=ego[1], anns=anns))
                pcs.append(pc)
                boxes_per.append(boxes)
            spec = D.SceneSpec(samples=samples, pointclouds=pcs)
            ctx.begin_case("manager", idx, n_samples=n_s)
            with ctx.case_guard("manager"):
                with D.DatasetDir(spec) as ds:
                    # an instance filter restricts which objects are *evaluated*; every annotated box is still cut out of
                    # the non-detection clouds
                    uu = None if r.random() < 0.5 else [f"i{j}" for j in range(5) if r.random() < 0.5] + ["nobody"]
                    cfg = SensingEvaluationConfig(dataset_paths=[ds.root], frame_id="base_link", result_root_directory=ds.result_root, evaluation_config_dict={"evaluation_task": "sensing", "target_uuids": uu, "box_scale_0m": s0, "box_scale_100m": s100, "min_points_threshold": r.choice([1, 3])}, load_raw_data=True)
                    mgr = SensingEvaluationManager(cfg)
                    area = [(12.0, 3.0, -1.0), (12.0, -3.0, -1.0), (0.0, -3.0, -1.0), (0.0, 3.0, -1.0), (12.0, 3.0, 5.0), (12.0, -3.0, 5.0), (0.0, -3.0, 5.0), (0.0, 3.0, 5.0)]
                    for k, fgt in enumerate(mgr.ground_truth_frames):
                        raw = list(fgt.raw_data.values())[0]
                        res = mgr.add_frame_result(fgt.unix_time, fgt, raw.astype(float), [area])
                        ctx.count("C12.manager_frames")
                        # non-detection failures = points inside the prism and outside every scaled box (own definition)
                        pc = raw.astype(float)
                        insp, decp = prism_verdicts(pc, area)
                        keep = insp.copy()
                        und = ~decp
                        for o in fgt.objects:
                            scale = s0 + 0.01 * (s100 - s0) * float(np.linalg.norm(O.box_of(o)[:3]))
                            ins, dec = box_verdicts_fast(pc, O.box_of(o), scale)
                            keep &= ~ins
                            und |= ~dec
                        if not und.any():
                            exp = set(pc[keep][:, -1].tolist())
                            got = set()
                            for a in res.pointcloud_failed_non_detection:
                                got |= set(a[:, -1].tolist())
                            ctx.check(got == exp, "C12/non_detection_failures_not_points_in_area_outside_every_box", dict(frame=k, reported=len(got), expected=len(exp)), "SensingEvaluationManager")
                        annotated = {a.inst: a.vis for a in samples[k].anns}
                        warn_exp = sum(1 for o in fgt.objects if annotated.get(o.uuid) == "none" and (uu is None or o.uuid in uu))
                        ctx.check(len(res.detection_warning_results) == warn_exp, "C12/warning_status_not_visibility_none", dict(frame=k, warnings=len(res.detection_warning_results), annotated_none=warn_exp, vis=[repr(o.visibility) for o in fgt.objects]), "SensingEvaluationManager")
                    ctx.case(("manager", n_s, s0), nontrivial=True)
        ctx.notes["taps"] = taps.installed
