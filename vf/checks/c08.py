"""C08 - loosening a matching threshold never loses a TP and never lowers AP."""
from __future__ import annotations

import math
import numpy as np
from typing import Any, Dict, List, Sequence, Tuple

from perception_eval.common.evaluation_task import EvaluationTask
from perception_eval.common.label import AutowareLabel
from perception_eval.evaluation.matching import MatchingMode
from perception_eval.evaluation.matching import objects_filter as of_mod
from perception_eval.evaluation.metrics.detection.ap import Ap
from perception_eval.evaluation.metrics.detection.map import Map
from perception_eval.evaluation.metrics.detection.tp_metrics import TPMetricsAp, TPMetricsAph
from perception_eval.evaluation.result import object_result as or_mod

from .. import matching
from ..core import Ctx, Taps
from ..gen import dataset as D
from ..gen import objects as O
from ..oracles import geometry as G
from ..scenario import Run, gen_scenario

def _lib_of():
    # library functions are called from the modules that define them (not through a name another module happens to import)
    import perception_eval.evaluation.matching.objects_filter as m

    return m


def _lib_or():
    import perception_eval.evaluation.result.object_result as m

    return m


LEVEL_TEXT = (
    "Held on every ordered threshold pair evaluated under the comparator: the same real result objects (produced by the real "
    "matcher from generated scenes, ordinary ground truth only) are evaluated at a chain of thresholds drawn from their own "
    "score distribution, and the recorded decisions are compared: per-result implication TP(t) => TP(t') for every looser t', "
    "TP counts non-decreasing and FN counts non-increasing (get_positive_objects / get_negative_objects), AP, APH and mAP "
    "non-decreasing (Ap / Map), for all four matching modes and all labels; the same is checked at frame and scene level "
    "through the real manager configured with several thresholds at once."
)
LEVEL_NOTE = "IoU thresholds stay inside [0,1]; AP comparisons use a 1e-12 slack; FP-labelled ground truth is excluded as the statement says."
TECHNIQUE = "runtime monitoring: two-execution (threshold-chain) comparator over the same recorded result objects; taps count is_result_correct / Ap evaluations"
RULE = (
    "result sets from the real matcher on generated 3D scenes (all policies, up to 24x24 objects) x 4 matching modes x chains "
    "of 6 thresholds taken from the empirical score quantiles plus extremes; manager scenarios with 3-threshold chains per mode "
    "(frame level and scene level); non-trivial = chain along which at least one result flips; distinct = (source, mode, "
    "policy, #flips class, n class)"
    " Later additions: distance chains end with an infinite threshold; a frame's own PassFailResult re-judged along a chain; numpy-scalar thresholds; doubly annotated objects; 2D results under all modes."
)
ASSUMPTIONS = ["ordinary (non false-positive-labelled) ground truth only", "thresholds compared per label with the same chain for all labels"]
DECIDING = ["C08.chains_2d", "C08.duplicate_annotation_chains", "C08.chains", "C08.chains_with_flip", "C08.result_implications_checked", "C08.count_pairs_checked", "C08.ap_pairs_checked", "C08.map_pairs_checked", "C08.manager_chains", "C08.passfail_sweeps"]
JOBS = {"quick": 4, "thorough": 14}

LABELS = [AutowareLabel(v) for v in O.ORDINARY]


def looser_chain(mode: MatchingMode, scores: List[float], r) -> List[float]:
    """6 thresholds ordered from tight to loose."""
    iou = matching.MAXIMIZE[mode]
    vals = sorted(s for s in scores if s is not None)
    picks: List[float] = []
    if vals:
        for q in sorted(r.sample(range(len(vals)), min(4, len(vals)))):
            v = vals[q]
            picks.append(min(1.0, max(0.0, v + r.choice([-1e-3, 1e-3]))) if iou else max(0.0, v + r.choice([-1e-3, 1e-3])))
    while len(picks) < 4:
        picks.append(r.random() if iou else r.uniform(0.0, 10.0))
    picks += [0.0, 1.0] if iou else [0.0, 1e6]
    picks = sorted(set(round(p, 9) for p in picks))
    if r.random() < 0.25:
        # values exactly representable in single precision, so that the chain can also be spelled with numpy scalars
        picks = sorted(set(float(np.float32(p)) for p in picks))
    if not iou and r.random() < 0.4:
        picks.append(float("inf"))  # "match at any distance": the loosest distance threshold there is
    return list(reversed(picks)) if iou else picks


def install_counters(taps: Taps, ctx: Ctx) -> None:
    def f(orig):
        def is_result_correct(self, *a, **k):
            ctx.count("is_result_correct.calls")
            return orig(self, *a, **k)

        return is_result_correct

    taps.method(or_mod.DynamicObjectWithPerceptionResult, "is_result_correct", f)


def evaluate_at(ctx: Ctx, results: List[Any], gts: List[Any], mode: MatchingMode, t: float, shared: Dict[Any, List[Any]]) -> Dict[str, Any]:
    n_lab = len(LABELS)
    thr_list: List[Any] = [t] * n_lab
    if float(np.float32(t)) == t:
        # the same numbers as numpy scalars (what indexing a numpy array of thresholds yields): real numbers like any other
        thr_list = [np.float32(t) if k % 2 == 0 else (np.int64(t) if float(t).is_integer() and abs(t) < 2**31 else t) for k in range(n_lab)]
        ctx.count("C08.numpy_scalar_thresholds")
    correct = []
    for res in results:
        thr = matching.label_threshold(res.ground_truth_object if res.ground_truth_object is not None else res.estimated_object, LABELS, thr_list)
        correct.append(bool(res.is_result_correct(mode, thr)) if thr is not None else None)
    tp, fp = of_mod.get_positive_objects(results, LABELS, mode, thr_list)
    tn, fn = of_mod.get_negative_objects(gts, results, LABELS, mode, thr_list)
    if results and not hasattr(results[0].estimated_object, "get_heading_bev"):
        # 2D objects carry no heading: the TP / FN judgements are what there is to compare
        return dict(t=t, correct=correct, n_tp=len(tp), n_fn=len(fn), aps=[], aphs=[], map=float("inf"), maph=float("inf"))
    ngt = {l: sum(1 for g in gts if g.semantic_label.label == l) for l in LABELS}
    m = Map(object_results_dict=shared, num_ground_truth_dict=ngt, target_labels=LABELS, matching_mode=mode, matching_threshold_list=thr_list)
    out = dict(t=t, correct=correct, n_tp=len(tp), n_fn=len(fn), aps=[a.ap for a in m.aps], aphs=[a.ap for a in m.aphs], map=m.map, maph=m.maph)
    # the same results against a ground-truth count taken elsewhere (after a stricter point or range filter: fewer ground
    # truths than the results were matched against). The count is fixed along the chain, so the scores stay monotone.
    if (len(results) + len(gts)) % 3 == 0:
        low = {l: (n if n <= 1 else max(1, n // 2)) for l, n in ngt.items()}
        m2 = Map(object_results_dict=shared, num_ground_truth_dict=low, target_labels=LABELS, matching_mode=mode, matching_threshold_list=thr_list)
        ctx.count("C08.reduced_count_maps")
        out.update(aps_low=[a.ap for a in m2.aps], aphs_low=[a.ap for a in m2.aphs], map_low=m2.map, maph_low=m2.maph)
    return out


def chain_on_results(ctx: Ctx, results: List[Any], gts: List[Any], mode: MatchingMode, chain: List[float], info: Dict[str, Any]) -> int:
    """Returns the number of flips along the chain."""
    tap = "comparator"
    prev = None
    flips = 0
    # The same per-label result lists are handed to every evaluation of the chain, and the evaluations are made in an
    # order of their own (loosest first on every other chain); the comparison below walks the chain tight -> loose.
    shared: Dict[Any, List[Any]] = {l: [] for l in LABELS}
    for res in results:
        lab = res.estimated_object.semantic_label.label
        if lab not in shared and res.ground_truth_object is not None:
            lab = res.ground_truth_object.semantic_label.label
        if lab in shared:
            shared[lab].append(res)
    shared_before = {l: list(v) for l, v in shared.items()}
    results_before = list(results)
    order = list(range(len(chain)))
    if (len(results) + len(gts)) % 2 == 1:
        order.reverse()
    computed: Dict[int, Dict[str, Any]] = {}
    for k in order:
        computed[k] = evaluate_at(ctx, results, gts, mode, chain[k], shared)
        ctx.count("C08.shared_lists_checked")
        # (the library sorts a flat per-label list by confidence in place: a reordering is not a change of the results)
        same = all(sorted(map(id, shared[l])) == sorted(map(id, shared_before[l])) for l in LABELS)
        same = same and len(results) == len(results_before) and all(x is y for x, y in zip(results, results_before))
        ctx.check(same, "C08/evaluation_at_one_threshold_removes_or_adds_results", dict(info, threshold=chain[k], sizes={str(l): (len(shared_before[l]), len(shared[l])) for l in LABELS}), tap)
        if not same:
            shared = {l: list(v) for l, v in shared_before.items()}
    for k, t in enumerate(chain):
        cur = computed[k]
        correct = cur["correct"]
        if prev is not None:
            for i, (a, b) in enumerate(zip(prev["correct"], correct)):
                if a is None:
                    continue
                ctx.count("C08.result_implications_checked")
                if a and not b:
                    ctx.violation("C08/tp_lost_when_threshold_loosened", dict(info, tight=prev["t"], loose=t, est=O.describe(results[i].estimated_object), gt=O.describe(results[i].ground_truth_object)), tap=tap)
                if b and not a:
                    flips += 1
            ctx.count("C08.count_pairs_checked")
            ctx.check(cur["n_tp"] >= prev["n_tp"], "C08/tp_count_decreases_when_loosened", dict(info, tight=prev["t"], loose=t, tp_tight=prev["n_tp"], tp_loose=cur["n_tp"]), tap)
            ctx.check(cur["n_fn"] <= prev["n_fn"], "C08/fn_count_increases_when_loosened", dict(info, tight=prev["t"], loose=t, fn_tight=prev["n_fn"], fn_loose=cur["n_fn"]), tap)
            for a, b, name in ((prev["aps"], cur["aps"], "ap"), (prev["aphs"], cur["aphs"], "aph"), (prev.get("aps_low", []), cur.get("aps_low", []), "ap"), (prev.get("aphs_low", []), cur.get("aphs_low", []), "aph")):
                for lab, x, y in zip(LABELS, a, b):
                    if math.isinf(x) or math.isinf(y):
                        continue
                    ctx.count("C08.ap_pairs_checked")
                    ctx.check(y >= x - 1e-12, f"C08/{name}_decreases_when_loosened", dict(info, label=str(lab), tight=prev["t"], loose=t, value_tight=x, value_loose=y), tap)
            for name in ("map", "maph", "map_low", "maph_low"):
                if name not in prev or name not in cur:
                    continue
                x, y = prev[name], cur[name]
                if not (math.isinf(x) or math.isinf(y)):
                    ctx.count("C08.map_pairs_checked")
                    ctx.check(y >= x - 1e-12, f"C08/{name.replace('_low', '')}_decreases_when_loosened", dict(info, tight=prev["t"], loose=t, value_tight=x, value_loose=y, reduced_ground_truth_count=name.endswith("_low")), tap)
        prev = cur
    return flips


def run(ctx: Ctx) -> None:
    import perception_eval.manager.perception_evaluation_manager as mgr_mod

    with Taps(ctx) as taps:
        install_counters(taps, ctx)
        for idx in ctx.indices("results", 300 if ctx.quick else 30000):
            r = ctx.rng("results", idx)
            c = matching.gen_matching_case(r, max_n=24, force_2d=False)
            kw = c["kwargs"]
            gts = [g for g in kw["ground_truth_objects"] if not O.is_fp_label(g)]
            kw = dict(kw, ground_truth_objects=gts, evaluation_task=EvaluationTask.DETECTION, matchable_thresholds=None)
            ctx.begin_case("results", idx, **c["case"])
            with ctx.case_guard("results"):
                results = _lib_or().get_object_results(**kw)
                for mode in MatchingMode:
                    scores = [res.get_matching(mode).value for res in results if res.ground_truth_object is not None]
                    chain = looser_chain(mode, scores, r)
                    info = dict(mode=str(mode), policy=c["case"]["policy"], n_results=len(results), n_gt=len(gts), chain=chain)
                    flips = chain_on_results(ctx, results, gts, mode, chain, info)
                    ctx.count("C08.chains")
                    if flips:
                        ctx.count("C08.chains_with_flip")
                    ctx.case(("results", str(mode), c["case"]["policy"], min(flips, 3), min(len(results), 3)), nontrivial=flips > 0, sample=dict(info, flips=flips) if idx < 2 and mode == MatchingMode.IOU2D else None)
                # the same threshold values reused across modes on the same result objects (judgements of one mode
                # must not leak into another): shared grids, modes in random order
                coarse_d, fine_d = [0.0, 0.5, 1.0, 2.0, 4.0, 1e6, float("inf")], [0.0, 0.25, 0.5, 0.75, 1.0, 1.5, 2.0, 3.0, 4.0, 1e6, float("inf")]
                coarse_i, fine_i = [1.0, 0.5, 0.25, 0.0], [1.0, 0.75, 0.5, 0.35, 0.25, 0.1, 0.0]
                swap = r.random() < 0.5  # grids overlap only partly, so a leaked judgement shows as a lost TP
                grids = {MatchingMode.CENTERDISTANCE: fine_d if swap else coarse_d, MatchingMode.PLANEDISTANCE: coarse_d if swap else fine_d, MatchingMode.IOU2D: fine_i if swap else coarse_i, MatchingMode.IOU3D: coarse_i if swap else fine_i}
                order = list(MatchingMode)
                r.shuffle(order)
                for mode in order:
                    info = dict(mode=str(mode), policy=c["case"]["policy"], n_results=len(results), n_gt=len(gts), chain=grids[mode], shared_grid=True)
                    flips = chain_on_results(ctx, results, gts, mode, grids[mode], info)
                    ctx.count("C08.chains")
                    if flips:
                        ctx.count("C08.chains_with_flip")
                    ctx.case(("results_grid", str(mode), c["case"]["policy"], min(flips, 3)), nontrivial=flips > 0)

        # ---- a doubly annotated object (two ground truths equal in pose and label, own uuids) detected twice
        for idx in ctx.indices("duplicate_annotations", 40 if ctx.quick else 4000):
            r = ctx.rng("duplicate_annotations", idx)
            x, y, yaw = r.uniform(-30, 30), r.uniform(-30, 30), O.rand_yaw(r)
            g1 = O.obj3d(x, y, 0.0, yaw, 1.9, 4.5, 1.6, "car", uuid="ann-a")
            g2 = O.obj3d(x, y, 0.0, yaw, 1.9, 4.5, 1.6, "car", uuid="ann-b")
            g2.state.position, g2.state.orientation = g1.state.position, g1.state.orientation
            near, far = r.uniform(0.1, 0.6), r.uniform(1.2, 1.9)
            hi, lo = round(r.uniform(0.6, 0.95), 3), round(r.uniform(0.1, 0.5), 3)
            ang = r.uniform(-math.pi, math.pi)
            e_far = O.obj3d(x + far * math.cos(ang), y + far * math.sin(ang), 0.0, G.wrap_pi(yaw + r.uniform(1.0, 2.0)), 1.9, 4.5, 1.6, "car", score=hi, uuid="det-far")
            e_near = O.obj3d(x - near * math.cos(ang), y - near * math.sin(ang), 0.0, G.wrap_pi(yaw + r.uniform(-0.1, 0.1)), 1.9, 4.5, 1.6, "car", score=lo, uuid="det-near")
            others = [O.obj3d(x + 20 + 8 * k, y, 0.0, 0.0, 1.9, 4.5, 1.6, "car", uuid=f"o{k}") for k in range(r.randint(0, 2))]
            gts = [g1, g2] + others
            ests = [e_far, e_near] + [O.obj3d(o.state.position[0] + 0.3, o.state.position[1], 0.0, 0.0, 1.9, 4.5, 1.6, "car", score=round(r.uniform(0.2, 0.9), 3), uuid=f"d{k}") for k, o in enumerate(others)]
            r.shuffle(ests)
            ctx.begin_case("duplicate_annotations", idx, near=near, far=far)
            with ctx.case_guard("duplicate_annotations"):
                results = _lib_or().get_object_results(evaluation_task=EvaluationTask.DETECTION, estimated_objects=ests, ground_truth_objects=gts, target_labels=LABELS)
                chain = sorted({round(near + 0.05, 3), round((near + far) / 2, 3), round(far + 0.05, 3), 3.0})
                info = dict(mode=str(MatchingMode.CENTERDISTANCE), policy="DEFAULT", n_results=len(results), n_gt=len(gts), chain=chain, duplicate_annotation=True)
                flips = chain_on_results(ctx, results, gts, MatchingMode.CENTERDISTANCE, chain, info)
                ctx.count("C08.duplicate_annotation_chains")
                ctx.case(("duplicate_annotations", min(flips, 3)), nontrivial=flips > 0)
        # ---- 2D results (image ROIs) judged under every mode, also the two that have no score for 2D objects (plane
        # distance, 3D IoU: the judgement then rests on the labels alone and cannot get worse when loosened)
        for idx in ctx.indices("results_2d", 80 if ctx.quick else 8000):
            r = ctx.rng("results_2d", idx)
            c = matching.gen_matching_case(r, max_n=12, force_2d=True)
            kw = c["kwargs"]
            gts = [g for g in kw["ground_truth_objects"] if not O.is_fp_label(g)]
            kw = dict(kw, ground_truth_objects=gts, evaluation_task=EvaluationTask.DETECTION2D, matchable_thresholds=None)
            ctx.begin_case("results_2d", idx, **c["case"])
            with ctx.case_guard("results_2d"):
                results = _lib_or().get_object_results(**kw)
                for mode in MatchingMode:
                    scores = []
                    if mode in (MatchingMode.CENTERDISTANCE, MatchingMode.IOU2D):  # the two scores a 2D object has
                        vals = [res.get_matching(mode) for res in results if res.ground_truth_object is not None]
                        scores = [v.value for v in vals if v is not None and v.value is not None]
                    if scores:
                        chain = [t_ for t_ in looser_chain(mode, scores, r) if not (mode == MatchingMode.IOU2D and not 0.0 <= t_ <= 1.0)]
                    else:
                        chain = [0.0, 0.2, 0.5, 0.9, 1.0] if not mode.value.startswith("IoU") else [1.0, 0.9, 0.5, 0.2, 0.0]
                    info = dict(mode=str(mode), policy=c["case"]["policy"], n_results=len(results), n_gt=len(gts), chain=chain, objects="2d")
                    flips = chain_on_results(ctx, results, gts, mode, chain, info)
                    ctx.count("C08.chains_2d")
                    ctx.case(("results_2d", str(mode), bool(scores), min(flips, 3)), nontrivial=len(results) > 0)
        # ---- a frame's pass/fail result re-judged along a chain of thresholds (a threshold sweep on one evaluated frame:
        # the frame's own PassFailResult is given one looser PerceptionPassFailConfig after another and evaluated again on
        # the frame's fixed results; every other chain walks loose -> tight)
        from perception_eval.evaluation.result.perception_frame_config import PerceptionPassFailConfig

        from ..frames import run_direct_frames

        def sweep(c, fr, config):
            if c["task"] == "fp_validation" or any(O.is_fp_label(g) for g in fr.frame_ground_truth.objects):
                return
            pfr = fr.pass_fail_result
            labels = [str(l.value) for l in pfr.frame_pass_fail_config.target_labels]
            results, gts = list(fr.object_results), list(fr.frame_ground_truth.objects)
            scores = sorted(res.plane_distance.value for res in results if res.ground_truth_object is not None and res.plane_distance is not None and res.plane_distance.value is not None)
            cuts = sorted({round(v + 0.01, 4) for v in scores[:6]} | {0.05, 1.0, 50.0})
            order = list(range(len(cuts)))
            if (len(results) + len(gts)) % 2 == 1:
                order.reverse()
            seen: Dict[int, Tuple[int, int, int, int]] = {}
            for k in order:
                pfr.frame_pass_fail_config = PerceptionPassFailConfig(evaluator_config=config, target_labels=labels, matching_threshold_list=[cuts[k]] * len(labels))
                pfr.evaluate(results, gts)
                seen[k] = (len(pfr.tp_object_results), len(pfr.fn_objects), len(pfr.fp_object_results), len(pfr.tn_objects))
            ctx.count("C08.passfail_sweeps")
            info = dict(level="frame_pass_fail", thresholds=cuts, order=order, counts=[seen[k] for k in range(len(cuts))], n_results=len(results), n_gt=len(gts))
            for k in range(1, len(cuts)):
                ctx.count("C08.passfail_pairs_checked")
                if seen[k][0] < seen[k - 1][0]:
                    ctx.violation("C08/frame_tp_count_decreases_when_threshold_loosened", info, tap="comparator")
                    break
                if seen[k][1] > seen[k - 1][1]:
                    ctx.violation("C08/frame_fn_count_increases_when_threshold_loosened", info, tap="comparator")
                    break
            ctx.case(("passfail_sweep", seen[len(cuts) - 1][0] > seen[0][0], seen[len(cuts) - 1][1] < seen[0][1]), nontrivial=seen[len(cuts) - 1] != seen[0])
            # per-label threshold vectors (each label its own value, labels listed in another order than in the critical
            # filter): a TP whose ground-truth label gets a looser-or-equal threshold in another evaluation is a TP there too
            if len(labels) >= 2 and scores:
                rr = ctx.rng("passfail_vectors", len(results) * 1000 + len(gts))
                lab_rot = labels[1:] + labels[:1]
                evals = []
                for _ in range(4):
                    vec = {l: rr.choice(cuts) for l in lab_rot}
                    pfr.frame_pass_fail_config = PerceptionPassFailConfig(evaluator_config=config, target_labels=lab_rot, matching_threshold_list=[vec[l] for l in lab_rot])
                    pfr.evaluate(results, gts)
                    evals.append((vec, {id(r_.estimated_object): str(r_.ground_truth_object.semantic_label.label.value) for r_ in pfr.tp_object_results}))
                ctx.count("C08.passfail_vector_evaluations", len(evals))
                for va, tpa in evals:
                    for vb, tpb in evals:
                        for eid, lab in tpa.items():
                            if lab in va and lab in vb and vb[lab] >= va[lab] and eid not in tpb:
                                ctx.violation("C08/frame_tp_lost_when_its_labels_threshold_loosened", dict(level="frame_pass_fail", labels=lab_rot, tight=va, loose=vb, label=lab), tap="comparator")
                                return

        run_direct_frames(ctx, "passfail_sweep", 120 if ctx.quick else 12000, after=sweep)

        # ---- through the manager: several thresholds at once, frame and scene level ----
        for idx in ctx.indices("manager", 60 if ctx.quick else 8000):
            r = ctx.rng("manager", idx)
            chains = {
                "center_distance_thresholds": sorted(round(r.uniform(0.1, 4.0), 3) for _ in range(3)),
                "plane_distance_thresholds": sorted(round(r.uniform(0.1, 4.0), 3) for _ in range(3)),
                "iou_2d_thresholds": sorted((round(r.uniform(0.05, 0.9), 3) for _ in range(3)), reverse=True),
                "iou_3d_thresholds": sorted((round(r.uniform(0.05, 0.9), 3) for _ in range(3)), reverse=True),
            }
            scn = gen_scenario(r, task="detection", fp_share=0.0, overrides=chains)
            ctx.begin_case("manager", idx, **scn.info)
            with ctx.case_guard("manager"):
                with D.DatasetDir(scn.scene_spec()) as ds:
                    run_ = Run(scn, ["base_link", "map"][idx % 2], ds)
                    frames = run_.run_all()
                    scene = run_.manager.get_scene_result()
                for level, ms in [("frame", f.metrics_score) for f in frames] + [("scene", scene)]:
                    by_mode: Dict[str, List[Any]] = {}
                    for m in ms.maps:
                        by_mode.setdefault(str(m.matching_mode), []).append(m)
                    for mode, maps in by_mode.items():
                        ctx.count("C08.manager_chains")
                        for a, b in zip(maps, maps[1:]):
                            for x, y, lab in zip(a.aps + a.aphs, b.aps + b.aphs, list(a.target_labels) * 2):
                                if math.isinf(x.ap) or math.isinf(y.ap):
                                    continue
                                ctx.count("C08.ap_pairs_checked")
                                ctx.check(y.ap >= x.ap - 1e-12, "C08/ap_decreases_when_loosened", dict(level=level, mode=mode, label=str(lab), tight=a.matching_threshold_list, loose=b.matching_threshold_list, value_tight=x.ap, value_loose=y.ap), "comparator")
                            for name in ("map", "maph"):
                                x, y = getattr(a, name), getattr(b, name)
                                if not (math.isinf(x) or math.isinf(y)):
                                    ctx.count("C08.map_pairs_checked")
                                    ctx.check(y >= x - 1e-12, f"C08/{name}_decreases_when_loosened", dict(level=level, mode=mode, tight=a.matching_threshold_list, loose=b.matching_threshold_list, value_tight=x, value_loose=y), "comparator")
                ctx.case(("manager", scn.info["policy"], len(scn.frames)), nontrivial=True)
        ctx.notes["taps"] = taps.installed
