"""C17 - ground-truth lookup picks the nearest frame in tolerance; interpolation is exact."""
from __future__ import annotations

import inspect

import math
from typing import Any, Dict, List, Optional, Tuple

import numpy as np

from perception_eval.common import dataset as ds_mod
from perception_eval.common.dataset import FrameGroundTruth
from perception_eval.common.schema import FrameID

from .. import matching
from ..core import Ctx, Taps, guarded
from ..gen import dataset as D
from ..gen import objects as O
from ..oracles import geometry as G

LEVEL_TEXT = (
    "Held on every lookup executed under the monitor: get_now_frame and get_interpolated_now_frame (all aliases, incl. the "
    "manager's) are tapped and each call is judged against a reference: arg-min in time with tolerance for the plain lookup; "
    "for the interpolated lookup the neighbours are re-derived from the time-ordered list, the returned frame must be the "
    "right neighbour (identity) / nothing / an interpolated frame stamped with exactly the query time whose objects are "
    "compared in map coordinates with the oracle's own lerp + shortest-arc slerp of the two neighbour poses (objects of only "
    "one neighbour kept, a neighbour reproduced at its own timestamp). Frame lists, object sets with appearing/disappearing "
    "ids, ego poses and query times around every frame and tolerance edge are generated; loaded datasets are queried through "
    "the real manager."
)
LEVEL_NOTE = "Frame lists are strictly time ordered; positions compared at 1e-6 + 1e-9*|coordinate| (translations up to 1e4), orientations up to quaternion sign at 1e-5 (pyquaternion normalises approximately inside slerp)."
TECHNIQUE = "runtime monitoring: taps on get_now_frame / get_interpolated_now_frame + reference arg-min and own lerp/slerp in map coordinates"
RULE = (
    "time-ordered frame lists (1..30 frames, irregular spacing) x queries before / on / between / after frames and at +-tolerance "
    "+-1 us x tolerances 0..1e6 us x object sets with ids appearing / disappearing x ego- or map-frame objects with arbitrary "
    "ego poses and quaternion sign flips; manager lookups on generated datasets. non-trivial = interpolated query with both "
    "neighbours in tolerance, or a lookup at a tolerance edge; distinct = (function, query position class, neighbours-in-tolerance class, frame id)"
    " Later additions: manager lookups judged against the caller's tolerance (10 ms .. 600 ms); objects stamped a fixed latency off their frame's stamp; tilted ego poses; objects turning on the spot."
)
ASSUMPTIONS = ["frames sorted by strictly increasing timestamp", "objects carry velocities (the interpolation code interpolates them)"]
DECIDING = ["get_now_frame.judged", "get_interpolated_now_frame.judged", "C17.interpolated_frames", "C17.objects_interpolated", "C17.objects_single_neighbour", "C17.before_first_queries", "C17.only_one_neighbour", "C17.none_returned", "C17.manager_lookups"]
JOBS = {"quick": 2, "thorough": 14}


def install(taps: Taps, ctx: Ctx) -> None:
    def now_factory(orig):
        sig = inspect.signature(orig)

        def get_now_frame(*args, **kwargs):
            # (the tap passes the call through unchanged and reads the effective arguments from the function's own signature)
            out = orig(*args, **kwargs)
            b = sig.bind(*args, **kwargs)
            b.apply_defaults()
            a = b.arguments
            guarded(ctx, "get_now_frame", lambda: judge_now(ctx, list(a["ground_truth_frames"]), a["unix_time"], a["threshold_min_time"], out))
            return out

        return get_now_frame

    taps.fn(ds_mod, "get_now_frame", now_factory)

    def interp_factory(orig):
        sig = inspect.signature(orig)

        def get_interpolated_now_frame(*args, **kwargs):
            out = orig(*args, **kwargs)
            b = sig.bind(*args, **kwargs)
            b.apply_defaults()
            a = b.arguments
            guarded(ctx, "get_interpolated_now_frame", lambda: judge_interp(ctx, list(a["ground_truth_frames"]), a["unix_time"], a["threshold_min_time"], out))
            return out

        return get_interpolated_now_frame

    taps.fn(ds_mod, "get_interpolated_now_frame", interp_factory)


def judge_now(ctx: Ctx, frames: List[Any], t: int, tol: int, out: Any) -> None:
    tap = "get_now_frame"
    ctx.count("get_now_frame.judged")
    diffs = [abs(t - f.unix_time) for f in frames]
    best = min(diffs)
    info = dict(t=t, tol=tol, times=[f.unix_time for f in frames][:12], best=best, returned=None if out is None else out.unix_time)
    if best > tol:
        ctx.check(out is None, "C17/frame_returned_outside_tolerance", info, tap)
        if out is None:
            ctx.count("C17.none_returned")
        return
    ctx.check(out is not None, "C17/no_frame_returned_although_one_is_within_tolerance", info, tap)
    if out is not None:
        ctx.check(any(out is f for f in frames), "C17/returned_frame_not_a_loaded_frame", info, tap)
        ctx.check(abs(t - out.unix_time) == best, "C17/returned_frame_not_the_closest", info, tap)


def map_pose(o: Any, frame: Any) -> Tuple[np.ndarray, Tuple[float, float, float, float]]:
    """Pose of an object in map coordinates with the oracle's own algebra."""
    q = o.state.orientation
    qt = (q.w, q.x, q.y, q.z)
    p = np.array(o.state.position, dtype=float)
    if O.frame_of(o) == "map":
        return p, qt
    m = frame.transforms.get((FrameID.BASE_LINK, FrameID.MAP))
    M = np.asarray(m.matrix, dtype=float)
    pm = (M @ np.append(p, 1.0))[:3]
    rot = m.rotation
    return pm, G.quat_mul((rot.w, rot.x, rot.y, rot.z), qt)


def judge_interp(ctx: Ctx, frames: List[Any], t: int, tol: int, out: Any) -> None:
    tap = "get_interpolated_now_frame"
    ctx.count("get_interpolated_now_frame.judged")
    before = None
    after = None
    for f in frames:
        if f.unix_time <= t:
            before = f
        elif after is None:
            after = f
    b_in = before is not None and (t - before.unix_time) <= tol
    a_in = after is not None and (after.unix_time - t) <= tol
    info = dict(t=t, tol=tol, times=[f.unix_time for f in frames][:12], before=None if before is None else before.unix_time, after=None if after is None else after.unix_time, before_in=b_in, after_in=a_in, returned=None if out is None else out.unix_time)
    if before is None:
        ctx.count("C17.before_first_queries")
    if not b_in and not a_in:
        ctx.count("C17.none_returned")
        ctx.check(out is None, "C17/interpolated_lookup_returns_frame_without_neighbour_in_tolerance", info, tap)
        return
    if b_in != a_in:
        ctx.count("C17.only_one_neighbour")
        exp = before if b_in else after
        ctx.check(out is exp, "C17/single_neighbour_in_tolerance_not_returned", info, tap)
        return
    ctx.count("C17.interpolated_frames")
    if out is None:
        ctx.violation("C17/no_interpolated_frame_although_both_neighbours_in_tolerance", info, tap=tap)
        return
    ctx.check(out.unix_time == t, "C17/interpolated_frame_not_stamped_with_query_time", info, tap)
    ratio = (t - before.unix_time) / (after.unix_time - before.unix_time)
    got = {o.uuid: o for o in out.objects}
    ctx.check(len(got) == len(out.objects), "C17/interpolated_frame_has_duplicate_objects", info, tap)
    ids_b = {o.uuid: o for o in before.objects}
    ids_a = {o.uuid: o for o in after.objects}
    ctx.check(set(got) == set(ids_b) | set(ids_a), "C17/object_of_a_neighbour_missing_or_alien_object", dict(info, got=sorted(got)[:10], expected=sorted(set(ids_b) | set(ids_a))[:10]), tap)
    for u, o in got.items():
        if O.frame_of(o) != "map":
            ctx.violation("C17/interpolated_object_not_in_map_coordinates", dict(info, uuid=u, frame=O.frame_of(o)), tap=tap)
            continue
        qo = o.state.orientation
        if u in ids_b and u in ids_a:
            ctx.count("C17.objects_interpolated")
            p1, q1 = map_pose(ids_b[u], before)
            p2, q2 = map_pose(ids_a[u], after)
            exp_p = p1 + (p2 - p1) * ratio
            exp_q = G.slerp(q1, q2, ratio)
            ptol = 1e-6 + 1e-9 * float(np.abs(exp_p).max())
            ctx.check(float(np.abs(np.array(o.state.position, dtype=float) - exp_p).max()) <= ptol, "C17/interpolated_position_off_the_segment", dict(info, uuid=u, ratio=ratio, got=list(map(float, o.state.position)), expected=exp_p.tolist()), tap)
            ctx.check(G.same_rotation((qo.w, qo.x, qo.y, qo.z), exp_q, 1e-5), "C17/interpolated_orientation_off_the_shortest_arc", dict(info, uuid=u, ratio=ratio, got=[qo.w, qo.x, qo.y, qo.z], expected=list(exp_q)), tap)
            ctx.check(o.unix_time == t, "C17/interpolated_object_not_stamped_with_query_time", dict(info, uuid=u, stamp=o.unix_time), tap)
        else:
            ctx.count("C17.objects_single_neighbour")
            src, fr = (ids_b[u], before) if u in ids_b else (ids_a[u], after)
            p, q = map_pose(src, fr)
            ptol = 1e-6 + 1e-9 * float(np.abs(p).max())
            ctx.check(float(np.abs(np.array(o.state.position, dtype=float) - p).max()) <= ptol and G.same_rotation((qo.w, qo.x, qo.y, qo.z), q, 1e-5), "C17/object_of_one_neighbour_not_kept_as_is", dict(info, uuid=u), tap)


# ---------------------------------------------------------------------------------------
def make_frames(r, n: int, frame_id: str) -> List[FrameGroundTruth]:
    t = 1_600_000_000_000_000 + r.randint(0, 10**6)
    frames = []
    n_ids = r.randint(1, 8)
    # annotations may carry a stamp of their own (sensor latency: the objects a fixed few milliseconds off their frame's
    # stamp); lookups and the proportional time go by the frames' stamps
    latency = r.choice([0, 0, 0, -20_000, -5_000, 1_500])
    # annotations without a velocity (what the loader gives an instance annotated once, or sparsely: "cannot be estimated")
    no_velocity = r.choice(["never", "never", "some", "all"])
    ego = [r.uniform(-1e4, 1e4) if r.random() < 0.5 else r.uniform(-50, 50), r.uniform(-1e4, 1e4) if r.random() < 0.5 else r.uniform(-50, 50), 0.0]
    ego_yaw = O.rand_yaw(r)
    tilt = (r.uniform(-0.15, 0.15), r.uniform(-0.2, 0.2)) if r.random() < 0.3 else None
    tracks = {f"id{k}": dict(p=[r.uniform(-60, 60), r.uniform(-60, 60), r.uniform(-1, 1)], v=[r.uniform(-10, 10), r.uniform(-10, 10)], yaw=O.rand_yaw(r), w=r.uniform(-1.5, 1.5)) for k in range(n_ids)}
    if frame_id == "map":
        for tr in tracks.values():
            # a thing turning on the spot (a turntable, a pedestrian looking around): its map position is bit-identical in
            # every frame, only the orientation changes
            tr["spot"] = (ego[0] + r.uniform(-60, 60), ego[1] + r.uniform(-60, 60), r.uniform(-1, 1)) if r.random() < 0.2 else None
    for k in range(n):
        t += r.choice([1, 50_000, 100_000, 100_000, 500_000, 2_000_000]) if k else 0
        sec = (t - 1_600_000_000_000_000) * 1e-6
        ey = G.wrap_pi(ego_yaw + 0.3 * sec)
        ep = (ego[0] + 5.0 * sec, ego[1] - 2.0 * sec, ego[2])
        objs = []
        for u, tr in tracks.items():
            if r.random() < 0.25:
                continue
            b = (tr["p"][0] + tr["v"][0] * sec, tr["p"][1] + tr["v"][1] * sec, tr["p"][2], G.wrap_pi(tr["yaw"] + tr["w"] * sec), 2.0, 4.0, 1.5)
            vel = None if (no_velocity == "all" or (no_velocity == "some" and r.random() < 0.4)) else (tr["v"][0], tr["v"][1], 0.0)
            # an instance is the same object in both neighbours by its id, also when its annotated class was revised from one
            # key frame to the next (car <-> truck)
            lab_k = ("truck" if k % 2 else "car") if tr.setdefault("relabelled", r.random() < 0.15) else "car"
            o = O.obj3d(*b, uuid=u, t=t + latency, velocity=vel, negate_q=r.random() < 0.4, npts=5, lab=lab_k)
            if frame_id == "map" and tr.get("spot") is not None:
                from perception_eval.common.schema import FrameID as _F

                o = O.obj3d(*tr["spot"], G.wrap_pi(tr["yaw"] + tr["w"] * sec), 2.0, 4.0, 1.5, uuid=u, t=t + latency, velocity=(0.0, 0.0, 0.0), negate_q=r.random() < 0.4, npts=5, frame=_F.MAP)
            elif frame_id == "map":
                o = O.to_map(o, ep, ey)
                if r.random() < 0.4:
                    o.state.orientation = -o.state.orientation
            objs.append(o)
        r.shuffle(objs)  # annotation order is not stable between frames
        if tilt is None:
            ego_tf = O.ego2map(ep, ey)
        else:
            # the ego on a slope / bank (pitch and roll next to the yaw), slowly changing
            from perception_eval.common.transform import HomogeneousMatrix

            ego_tf = HomogeneousMatrix(np.array(ep, dtype=float), O.quat(ey, roll=tilt[0] + 0.02 * sec, pitch=tilt[1] - 0.03 * sec), src=FrameID.BASE_LINK, dst=FrameID.MAP)
        frames.append(FrameGroundTruth(unix_time=t, frame_name=str(k), objects=objs, transforms=[ego_tf]))
    return frames


def queries(r, frames: List[Any], tol: int) -> List[Tuple[int, str]]:
    ts = [f.unix_time for f in frames]
    out: List[Tuple[int, str]] = []
    for k, t in enumerate(ts):
        out.append((t, "on"))
        for d in (-1, 1):
            out.append((t + d * tol, "edge"))
            out.append((t + d * (tol + 1), "edge_out"))
            out.append((t + d * max(0, tol - 1), "edge_in"))
        if k + 1 < len(ts):
            mid = (t + ts[k + 1]) // 2
            out.append((mid, "between"))
            out.append((r.randint(t, ts[k + 1]), "between"))
    out.append((ts[0] - r.randint(1, max(2, 2 * tol + 2)), "before_first"))
    out.append((ts[0] - 1, "before_first"))
    out.append((ts[-1] + r.randint(1, max(2, 2 * tol + 2)), "after_last"))
    r.shuffle(out)
    return out[:40]


def run(ctx: Ctx) -> None:
    import perception_eval.common.dataset as base_mod  # (the module that defines the functions called below)

    with Taps(ctx) as taps:
        install(taps, ctx)
        for idx in ctx.indices("direct", 150 if ctx.quick else 60000):
            r = ctx.rng("direct", idx)
            n = r.choice([1, 2, 3, 5, 10, 30]) if r.random() < 0.7 else r.randint(1, 30)
            frame_id = r.choice(["base_link", "map"])
            frames = make_frames(r, n, frame_id)
            tol = r.choice([0, 1, 1000, 75_000, 75_000, 300_000, 1_000_000])
            ctx.begin_case("direct", idx, n=n, frame_id=frame_id, tol=tol)
            with ctx.case_guard("direct", library_must_not_raise="C17/lookup_raised_on_valid_frames"):
                for t, cls in queries(r, frames, tol):
                    ctx.evaluations += 1
                    a = base_mod.get_now_frame(frames, t, tol)
                    b = base_mod.get_interpolated_now_frame(frames, t, tol)
                    kind = "none" if b is None else ("neighbour" if any(b is f for f in frames) else "interpolated")
                    ctx.case(("lookup", cls, kind, a is None, frame_id), nontrivial=kind == "interpolated" or cls.startswith("edge"), sample=dict(t=t, tol=tol, cls=cls, result=kind, times=[f.unix_time for f in frames][:6]) if idx < 2 and cls == "between" else None)
        # ---- through the real manager on loaded datasets
        from ..scenario import Run, gen_scenario

        for idx in ctx.indices("manager", 10 if ctx.quick else 3000):
            r = ctx.rng("manager", idx)
            scn = gen_scenario(r, task=r.choice(["detection", "tracking"]), n_frames=r.randint(2, 5))
            frame_id = r.choice(["base_link", "map"])
            ctx.begin_case("manager", idx, frame_id=frame_id, **scn.info)
            with ctx.case_guard("manager"):
                with D.DatasetDir(scn.scene_spec()) as dsd:
                    run_ = Run(scn, frame_id, dsd)
                    ts = [f.t for f in scn.frames]
                    for q in range(12):
                        t = r.choice(ts) + r.choice([0, 1, -1, 40_000, -40_000, 74_999, 75_001, 10_000_000])
                        interp = r.random() < 0.6
                        tol = r.choice([75_000, 75_000, 600_000, 10_000, 200_000])
                        ctx.count("C17.manager_lookups")
                        out = run_.manager.get_ground_truth_now_frame(t, threshold_min_time=tol, interpolate_ground_truth=interp)
                        # the manager's answer is judged against the tolerance its caller asked for
                        gtf = list(run_.manager.ground_truth_frames)
                        if interp:
                            guarded(ctx, "manager_lookup", lambda: judge_interp(ctx, gtf, t, tol, out))
                        else:
                            guarded(ctx, "manager_lookup", lambda: judge_now(ctx, gtf, t, tol, out))
                    ctx.case(("manager", frame_id), nontrivial=True)
        ctx.notes["taps"] = taps.installed
