"""C05 - CLEAR tracking scores follow their definitions for every history."""
from __future__ import annotations

import os

import itertools
import math
from typing import Any, Dict, List, Optional, Sequence, Tuple

from perception_eval.common.label import AutowareLabel
from perception_eval.evaluation import DynamicObjectWithPerceptionResult
from perception_eval.evaluation.matching import MatchingLabelPolicy, MatchingMode
from perception_eval.evaluation.metrics.tracking import clear as clear_mod
from perception_eval.evaluation.metrics.tracking.clear import CLEAR

from .. import apmodel, matching
from ..core import Ctx, Taps, close, guarded
from ..gen import objects as O

LEVEL_TEXT = (
    "Held on every CLEAR object constructed under the monitor: per frame pair the totals returned by the real "
    "_calculate_tp_fp and the final tp/fp/id_switch/tp_matching_score/MOTA/MOTP are compared with a reference accumulator over "
    "abstract results (estimate track, ground-truth track, correct?, score) whose correctness and scores come from the oracle's "
    "own geometry; histories over a small id alphabet are enumerated exhaustively, named scenarios (perfect, re-id, swap), "
    "random long histories with injected misses/false alarms/switches, a renamed second execution (metamorphic) and tracking "
    "scenarios through the real manager complete the workload."
)
LEVEL_NOTE = "Exact comparison needs unique estimate ids and ground-truth ids per frame (one-to-one matching); duplicate-id frames are judged by the accounting identity only. Per-frame-pair values are read off the private CLEAR._calculate_tp_fp when it is observed once per pair, otherwise the history is judged on its totals."
TECHNIQUE = "runtime monitoring: taps on CLEAR.__init__/_calculate_tp_fp + reference CLEAR accumulator; exhaustive history enumeration; metamorphic renaming"
RULE = (
    "(a) exhaustive histories over estimate ids {A,B} x ground-truth ids {1,2,none} x {correct,far}: all 28 one-to-one frames, "
    "all sequences of length 2 (quick) / 3 (thorough) after an empty or non-empty 'previous' frame; (b) named scenarios at "
    "lengths 2..30; (c) random histories up to 200 frames x 12 objects, all matching modes, labels in/out of the target list, "
    "duplicate ids; (d) tracking scenarios through the real manager (frame level and scene level). non-trivial = history with "
    ">= 1 evaluated result after the previous frame; distinct = distinct (source, mode, length class, #switch class, #carry-over class, fp?, dup?)"
    " Later additions: recordings of 11..101 frames (frame numbers crossing a power of ten) with the scene-level history compared frame by frame with the evaluated frames; when the private per-pair method is not observed once per pair the history is judged on its totals."
)
ASSUMPTIONS = [
    "ground-truth counts passed to CLEAR are taken as given",
    "a pair whose matching score is within 1e-6 of the threshold makes the history unjudged (counted)",
]
DECIDING = ["CLEAR.events_judged", "CLEAR.histories_compared_with_definition", "C05.switches_seen", "C05.carry_over_seen", "C05.renamed_runs", "C05.named.perfect", "C05.named.reid", "C05.named.swap", "TrackingMetricsScore.wiring_checked"]
JOBS = {"quick": 4, "thorough": 14}
CAR = AutowareLabel.CAR
THR = {MatchingMode.CENTERDISTANCE: 1.0, MatchingMode.PLANEDISTANCE: 1.0, MatchingMode.IOU2D: 0.5, MatchingMode.IOU3D: 0.5}


# ---------------------------------------------------------------------------------------
# reference accumulator
# ---------------------------------------------------------------------------------------
def abstract(r: Any, mode: MatchingMode, labels: Sequence[Any], thresholds: Sequence[float]) -> Optional[Dict[str, Any]]:
    kind, near = apmodel.decide(r, mode, labels, thresholds)
    if kind == "ignored":
        return None
    e, g = r.estimated_object, r.ground_truth_object
    s, _ = apmodel.result_score(r, mode)
    return dict(est=(e.uuid, O.lab_of(e)), gt=None if g is None else g.uuid, correct=kind == "tp", score=s, near=near)


def ref_pair(prev: List[Optional[dict]], cur: List[Optional[dict]], carry_model: str = "previous") -> Tuple[float, float, int, float, bool, int]:
    """One frame pair -> (tp, fp, id switches, tp score, order_free, carry_overs).

    carry_model: how a result that repeats the pairing of a previous TP is counted. "previous" = the documented
    carry-over (TP carrying the previous score); "current" = judged by its own current correctness and score. The
    property does not fix this choice, so either is admissible (the monitor accepts a frame pair matching one of them)."""
    tp = fp = score = 0.0
    sw = carry = 0
    prev_tp = [p for p in prev if p is not None and p["correct"] and p["gt"] is not None]
    order_free = True
    for c in cur:
        if c is None:
            continue
        same = [p for p in prev_tp if c["gt"] is not None and p["est"] == c["est"] and p["gt"] == c["gt"]]
        switched = [p for p in prev_tp if c["gt"] is not None and ((p["est"] == c["est"]) != (p["gt"] == c["gt"]))]
        if same and switched:
            order_free = False  # only possible with duplicate ids inside a frame
        if same and not switched:
            carry += 1
            if carry_model == "previous":
                tp += 1.0
                score += same[0]["score"]
                if len({p["score"] for p in same}) > 1:
                    order_free = False
            elif c["correct"]:
                tp += 1.0
                score += c["score"]
            else:
                fp += 1.0
        elif c["correct"] and not same:
            tp += 1.0
            score += c["score"]
            if switched:
                sw += 1
        elif not same:
            fp += 1.0
        else:
            order_free = False
    return tp, fp, sw, score, order_free, carry


def install(taps: Taps, ctx: Ctx) -> None:
    def pair_factory(orig):
        def _calculate_tp_fp(self, cur_object_results, prev_object_results):
            out = orig(self, cur_object_results, prev_object_results)
            rec = getattr(self, "_verif_pairs", None)
            if rec is None:
                rec = self._verif_pairs = []
            rec.append((list(prev_object_results), list(cur_object_results), out))
            return out

        return _calculate_tp_fp

    if not os.environ.get("VERIF_C05_NO_PAIR_TAP"):  # (switch used to exercise the totals-level judgement on its own)
        taps.method(clear_mod.CLEAR, "_calculate_tp_fp", pair_factory)

    def init_factory(orig):
        def __init__(self, object_results, *args, **kwargs):
            snap = [list(fr) for fr in object_results]
            orig(self, object_results, *args, **kwargs)
            self._verif_snap = snap
            ctx.count("CLEAR.calls")
            guarded(ctx, "CLEAR", lambda: judge(ctx, self, snap))

        return __init__

    taps.method(clear_mod.CLEAR, "__init__", init_factory, tapname="CLEAR")

    from perception_eval.evaluation.metrics.tracking import tracking_metrics_score as tms_mod

    def tms_factory(orig):
        def __init__(self, object_results_dict, num_ground_truth_dict, target_labels, matching_mode, matching_threshold_list):
            orig(self, object_results_dict, num_ground_truth_dict, target_labels, matching_mode, matching_threshold_list)

            def j():
                # every label's CLEAR is computed from that label's own results, ground-truth count and threshold
                ctx.count("TrackingMetricsScore.wiring_checked")
                ok = len(self.clears) == len(target_labels)
                detail = []
                for i, (lab, thr) in enumerate(zip(target_labels, matching_threshold_list)):
                    if i >= len(self.clears):
                        break
                    c = self.clears[i]
                    eff = matching.label_threshold(type("L", (), {"semantic_label": type("S", (), {"label": lab})()})(), c.target_labels, c.matching_threshold_list)
                    good = list(c.target_labels) == [lab] and eff is not None and float(eff) == float(thr) and c.num_ground_truth == num_ground_truth_dict[lab] and c.matching_mode == matching_mode
                    ok = ok and good
                    detail.append(dict(label=str(lab), threshold=float(thr), clear_labels=[str(x) for x in c.target_labels], clear_effective_threshold=None if eff is None else float(eff), n_gt=(c.num_ground_truth, num_ground_truth_dict[lab])))
                ctx.check(ok, "C05/per_label_clear_not_given_that_labels_own_inputs", dict(mode=str(matching_mode), labels=detail[:6]), "TrackingMetricsScore")

            guarded(ctx, "TrackingMetricsScore", j)

        return __init__

    taps.method(tms_mod.TrackingMetricsScore, "__init__", tms_factory, tapname="TrackingMetricsScore")


def judge(ctx: Ctx, c: Any, frames: List[List[Any]]) -> None:
    tap = "CLEAR"
    mode, labels, thrs = c.matching_mode, c.target_labels, c.matching_threshold_list
    abst = [[abstract(r, mode, labels, thrs) for r in fr] for fr in frames]
    if any(a is not None and a["near"] for fr in abst for a in fr):
        ctx.count("CLEAR.skipped_boundary")
        return
    ctx.count("CLEAR.events_judged")
    dup = False
    for fr in abst:
        ests = [a["est"] for a in fr if a is not None]
        gts = [a["gt"] for a in fr if a is not None and a["gt"] is not None]
        if len(set(ests)) < len(ests) or len(set(gts)) < len(gts):
            dup = True
    tot = [0.0, 0.0, 0, 0.0]
    carry_total = 0
    order_free = True
    pairs = getattr(c, "_verif_pairs", [])
    info = dict(mode=str(mode), n_frames=len(frames), n_gt=c.num_ground_truth, dup=dup, history=[[None if a is None else (a["est"][0], a["est"][1][:3], a["gt"], int(a["correct"])) for a in fr] for fr in abst][:8])
    n_eval = 0
    # The per-frame-pair values are read off a private method of the implementation; when that method is not what the
    # implementation goes through (it was inlined, renamed, its parameters changed), the history is judged on the totals.
    pairs_seen = len(pairs) == max(0, len(frames) - 1)
    totB = [0.0, 0.0, 0, 0.0]
    for i in range(1, len(abst)):
        tp, fp, sw, score, of, carry = ref_pair(abst[i - 1], abst[i])
        b_tp, b_fp, b_sw, b_sc, _, _ = ref_pair(abst[i - 1], abst[i], "current")
        order_free = order_free and of
        carry_total += carry
        n_cur = sum(1 for a in abst[i] if a is not None)
        n_eval += n_cur
        if pairs_seen:
            o_tp, o_fp, o_sw, o_sc = pairs[i - 1][2]
            ctx.count("CLEAR.pairs_checked")
            ctx.check(close(o_tp + o_fp, float(n_cur), 1e-9, 0), "C05/result_not_exactly_one_of_tp_fp", dict(info, frame=i, tp=o_tp, fp=o_fp, evaluated=n_cur), tap)
            if of and not dup:
                okA = close(o_tp, tp, 1e-9, 0) and close(o_fp, fp, 1e-9, 0) and o_sw == sw and close(o_sc, score, 1e-7, 1e-9)
                if not okA:
                    okA = close(o_tp, b_tp, 1e-9, 0) and close(o_fp, b_fp, 1e-9, 0) and o_sw == b_sw and close(o_sc, b_sc, 1e-7, 1e-9)
                else:
                    ctx.count("CLEAR.pairs_match_documented_carry_over")
                ctx.check(
                    okA,
                    "C05/frame_pair_totals_differ_from_definition",
                    dict(info, frame=i, observed=[o_tp, o_fp, o_sw, o_sc], expected=[tp, fp, sw, score]),
                    tap,
                )
        tot[0] += tp
        tot[1] += fp
        tot[2] += sw
        tot[3] += score
        totB[0] += b_tp
        totB[1] += b_fp
        totB[2] += b_sw
        totB[3] += b_sc
    ctx.check(close(c.tp + c.fp, float(n_eval), 1e-9, 0), "C05/result_not_exactly_one_of_tp_fp", dict(info, tp=c.tp, fp=c.fp, evaluated=n_eval), tap)
    if pairs_seen:
        ctx.count("CLEAR.histories_compared_with_definition")
        obs = [sum(p[2][0] for p in pairs), sum(p[2][1] for p in pairs), sum(p[2][2] for p in pairs), sum(p[2][3] for p in pairs)]
        ctx.check(
            close(c.tp, obs[0], 1e-9, 0) and close(c.fp, obs[1], 1e-9, 0) and c.id_switch == obs[2] and close(c.tp_matching_score, obs[3], 1e-7, 1e-9),
            "C05/totals_not_sum_of_frame_pairs",
            dict(info, observed=[c.tp, c.fp, c.id_switch, c.tp_matching_score], expected=obs),
            tap,
        )
    else:
        ctx.count("CLEAR.pair_hook_unobserved")
        if order_free and not dup:
            ctx.count("CLEAR.histories_compared_with_definition")

            def same(t):
                return close(c.tp, t[0], 1e-9, 0) and close(c.fp, t[1], 1e-9, 0) and c.id_switch == t[2] and close(c.tp_matching_score, t[3], 1e-7, 1e-9)

            # (one implementation follows one carry-over model throughout a history)
            ctx.check(same(tot) or same(totB), "C05/history_totals_differ_from_definition", dict(info, observed=[c.tp, c.fp, c.id_switch, c.tp_matching_score], expected=tot, expected_alt=totB), tap)
    # the score formulas are asserted on the library's own totals too (independent of the history oracle)
    n_gt = c.num_ground_truth
    exp_mota = float("inf") if n_gt == 0 else max(0.0, (c.tp - c.fp - c.id_switch) / n_gt)
    exp_motp = float("inf") if c.tp == 0 else c.tp_matching_score / c.tp
    ctx.check(close(float(c.mota), exp_mota, 1e-12, 1e-12), "C05/mota_formula", dict(info, mota=c.mota, expected=exp_mota), tap)
    ctx.check(close(float(c.motp), exp_motp, 1e-12, 1e-12), "C05/motp_formula", dict(info, motp=c.motp, expected=exp_motp), tap)
    res = c.results
    ctx.check(
        res["MOTA"] == c.mota and res["MOTP"] == c.motp and res["id_switch"] == c.id_switch and res["tp"] == c.tp and res["fp"] == c.fp,
        "C05/results_dict_inconsistent",
        dict(info, results=dict(res)),
        tap,
    )
    if tot[2]:
        ctx.count("C05.switches_seen", tot[2])
    if carry_total:
        ctx.count("C05.carry_over_seen", carry_total)
    c._verif = dict(tot=tot, dup=dup, order_free=order_free, n_eval=n_eval, carry=carry_total)


# ---------------------------------------------------------------------------------------
# building histories from abstract specs
# ---------------------------------------------------------------------------------------
_CACHE: Dict[Any, Any] = {}


def mk_result(est_id: str, gt_id: Optional[str], ok: bool, slot: int, est_lab: str = "car", gt_lab: str = "car", jitter: float = 0.0, conf: float = 0.5, policy: str = "DEFAULT") -> Any:
    """Real result objects are read-only for CLEAR, so equal specs share one object (construction is the dominant cost)."""
    key = (est_id, gt_id, ok, slot, est_lab, gt_lab, round(jitter, 6), conf, policy)
    r = _CACHE.get(key)
    if r is None:
        if len(_CACHE) > 200000:
            _CACHE.clear()
        r = _CACHE[key] = _mk_result(est_id, gt_id, ok, slot, est_lab, gt_lab, jitter, conf, policy)
    return r


def _mk_result(est_id: str, gt_id: Optional[str], ok: bool, slot: int, est_lab: str = "car", gt_lab: str = "car", jitter: float = 0.0, conf: float = 0.5, policy: str = "DEFAULT") -> Any:
    x0, y0 = 8.0 + 15.0 * slot, -4.0
    gt = None if gt_id is None else O.obj3d(x0, y0, 0.0, 0.2, 2.0, 4.0, 1.5, gt_lab, uuid=gt_id)
    dx = (0.05 + jitter) if ok else 3.0
    est = O.obj3d(x0 + dx, y0 + (0.0 if ok else 2.5), 0.0, 0.2, 2.0, 4.0, 1.5, est_lab, score=conf, uuid=est_id)
    return DynamicObjectWithPerceptionResult(est, gt, MatchingLabelPolicy[policy])


DIGIT_NAMES = [a for n in (1, 2, 3, 4) for a in ("".join(t) for t in itertools.product("12", repeat=n))]  # 30 names
DIGIT_NAMES_REV = [a for n in (1, 2, 3, 4) for a in reversed(["".join(t) for t in itertools.product("12", repeat=n)])]


def frame_options() -> List[List[Tuple[str, Optional[str], bool]]]:
    per_est: List[Optional[Tuple[Optional[str], bool]]] = [None, (None, False)] + [(g, ok) for g in ("1", "2") for ok in (True, False)]
    frames = []
    for a, b in itertools.product(per_est, per_est):
        if a is not None and b is not None and a[0] is not None and a[0] == b[0]:
            continue
        fr = []
        if a is not None:
            fr.append(("A", a[0], a[1]))
        if b is not None:
            fr.append(("B", b[0], b[1]))
        frames.append(fr)
    return frames


def build(history: Sequence[Sequence[Tuple]], **kw: Any) -> List[List[Any]]:
    out = []
    for fi, fr in enumerate(history):
        out.append([mk_result(e, g, ok, slot=i, jitter=0.01 * fi, **kw) for i, (e, g, ok) in enumerate(fr)])
    return out


def run_clear(history_objs: List[List[Any]], n_gt: int, mode: MatchingMode = MatchingMode.CENTERDISTANCE, thr: Optional[float] = None) -> Any:
    return CLEAR(object_results=history_objs, num_ground_truth=n_gt, target_labels=[CAR], matching_mode=mode, matching_threshold_list=[THR[mode] if thr is None else thr])


def exhaustive(ctx: Ctx, length: int) -> None:
    opts = frame_options()
    assert len(opts) == 28, len(opts)
    idx = 0
    complete = True
    import time

    for hist in itertools.product(range(len(opts)), repeat=length):
        idx += 1
        if not ctx.mine(idx):
            continue
        if idx % 256 == 0 and ctx.deadline is not None and time.time() > ctx.deadline:
            complete = False
            ctx.inconclusive.append("watchdog:exhaustive_histories")
            break
        for first_empty in (True, False):
            history = [[]] + [opts[i] for i in hist] if first_empty else [opts[i] for i in hist]
            n_gt = sum(1 for fr in history[1:] for (_, g, _) in fr if g is not None) + (idx % 2)
            ctx.begin_case("exhaustive", idx, hist=list(hist), first_empty=first_empty)
            c = run_clear(build(history), n_gt)
            v = getattr(c, "_verif", None)
            n_eval = 0 if v is None else v["n_eval"]
            ctx.case(("exh", length, first_empty, 0 if v is None else min(v["tot"][2], 2), 0 if v is None else min(v["carry"], 2), bool(v and v["tot"][1])), nontrivial=n_eval > 0, sample=dict(history=history, mota=c.mota, motp=c.motp, id_switch=c.id_switch) if idx in (100, 500) else None)
    ctx.exhaustive[f"histories_len{length}_ids_AB_x_12none_x_ok_far"] = complete


def named(ctx: Ctx) -> None:
    for L in ([2, 3, 5, 10] if ctx.quick else [2, 3, 4, 5, 8, 10, 20, 30]):
        for mode in MatchingMode:
            for n_obj in (1, 2, 4):
                ids = [(f"T{i}", f"G{i}") for i in range(n_obj)]
                # perfect tracker
                hist = [[]] + [[(e, g, True) for e, g in ids] for _ in range(L)]
                ctx.begin_case("named", L, scenario="perfect", mode=str(mode), n_obj=n_obj)
                c = run_clear(build(hist), n_obj * L, mode)
                ctx.count("C05.named.perfect")
                ctx.check(close(c.mota, 1.0, 1e-12, 0) and c.id_switch == 0 and c.fp == 0, "C05/perfect_tracker_not_mota_1", dict(L=L, mode=str(mode), mota=c.mota, id_switch=c.id_switch, fp=c.fp), "CLEAR")
                ctx.case(("named", "perfect", str(mode), min(L, 5), n_obj))
                for at in sorted({1, L // 2, L - 1}):
                    if at < 1 or at >= L:
                        continue
                    # new id on a continuing target from frame `at` on -> exactly one switch
                    hist = [[]] + [[((e if (k < at or i != 0) else "NEW"), g, True) for i, (e, g) in enumerate(ids)] for k in range(L)]
                    ctx.begin_case("named", L, scenario="reid", mode=str(mode), n_obj=n_obj, at=at)
                    c = run_clear(build(hist), n_obj * L, mode)
                    ctx.count("C05.named.reid")
                    ctx.check(c.id_switch == 1, "C05/new_id_on_continuing_target_not_one_switch", dict(L=L, at=at, mode=str(mode), id_switch=c.id_switch), "CLEAR")
                    ctx.case(("named", "reid", str(mode), min(L, 5), n_obj))
                    if n_obj >= 2:
                        # exchange the identities of the first two tracks from frame `at` on -> exactly two
                        def ex(i, k):
                            if k < at or i > 1:
                                return ids[i][0]
                            return ids[1 - i][0]

                        hist = [[]] + [[(ex(i, k), g, True) for i, (e, g) in enumerate(ids)] for k in range(L)]
                        ctx.begin_case("named", L, scenario="swap", mode=str(mode), n_obj=n_obj, at=at)
                        c = run_clear(build(hist), n_obj * L, mode)
                        ctx.count("C05.named.swap")
                        ctx.check(c.id_switch == 2, "C05/identity_exchange_not_two_switches", dict(L=L, at=at, mode=str(mode), id_switch=c.id_switch), "CLEAR")
                        ctx.case(("named", "swap", str(mode), min(L, 5), n_obj))


def random_histories(ctx: Ctx, n: int) -> None:
    for idx in ctx.indices("random", n):
        r = ctx.rng("random", idx)
        L = r.choice([2, 3, 6, 20, 60] + ([] if ctx.quick else [200])) if r.random() < 0.5 else r.randint(2, 30)
        n_obj = r.randint(1, 12)
        mode = r.choice(list(MatchingMode))
        dup = r.random() < 0.15
        policy = r.choice(["DEFAULT", "DEFAULT", "ALLOW_UNKNOWN", "ALLOW_ANY"])
        p_miss, p_fa, p_sw, p_swap, p_far, p_lab = r.choice([0, 0.1, 0.3]), r.choice([0, 0.1, 0.3]), r.choice([0, 0.05, 0.3]), r.choice([0, 0.05, 0.2]), r.choice([0, 0.1, 0.4]), r.choice([0, 0.1, 0.3])
        p_odd = r.choice([0, 0, 0.1, 0.3])
        trk = {i: f"T{i}" for i in range(n_obj)}
        nxt = 100
        history: List[List[Tuple]] = [[]] if r.random() < 0.6 else []
        specs: List[List[Dict[str, Any]]] = []
        for k in range(L):
            if r.random() < p_swap and n_obj >= 2:
                i, j = r.sample(range(n_obj), 2)
                trk[i], trk[j] = trk[j], trk[i]
            fr = []
            for i in range(n_obj):
                if r.random() < p_sw:
                    nxt += 1
                    trk[i] = f"T{nxt}"
                if r.random() < p_miss:
                    continue
                if r.random() < p_odd:
                    # pairing that is never evaluated for this label: FP-labelled or other-label ground truth
                    fr.append(dict(e=trk[i], g=f"X{i}", ok=r.random() < 0.5, el="car", gl=r.choice(["false_positive", "truck"])))
                    continue
                fr.append(dict(e=trk[i], g=f"G{i}", ok=r.random() >= p_far, el=r.choice(["pedestrian", "unknown"]) if r.random() < p_lab else "car", gl="car"))
            for j in range(3):
                if r.random() < p_fa:
                    nxt += 1
                    fr.append(dict(e=f"F{nxt}", g=None, ok=False, el=r.choice(["car", "car", "pedestrian"]), gl="car"))
            if dup and fr and r.random() < 0.5:
                d = dict(r.choice(fr))
                fr.append(d)
            specs.append(fr)
        objs = ([[]] if history else []) + [[mk_result(s["e"], s["g"], s["ok"], slot=i, est_lab=s["el"], gt_lab=s["gl"], jitter=0.001 * (k % 7), policy=policy) for i, s in enumerate(fr)] for k, fr in enumerate(specs)]
        n_gt = sum(1 for fr in specs for s in fr if s["g"] is not None) + r.choice([0, 0, 3])
        ctx.begin_case("random", idx, L=L, n_obj=n_obj, mode=str(mode), dup=dup)
        # IoU "any overlap" (a threshold of exactly 0) on every third IoU history: a regular value, under which the
        # slightly overlapping misplaced estimates count as TP too (the reference model decides from the actual scores)
        thr0 = 0.0 if (mode in (MatchingMode.IOU2D, MatchingMode.IOU3D) and idx % 3 == 0) else None
        c = run_clear(objs, n_gt, mode, thr0)
        v = getattr(c, "_verif", None)
        # metamorphic: consistent renaming of estimate and ground-truth track ids
        ren_e: Dict[str, str] = {}
        ren_g: Dict[str, str] = {}

        def rn(tbl, key, prefix):
            if key is None:
                return None
            if key not in tbl:
                if idx % 2 == 0:
                    tbl[key] = f"{prefix}{len(tbl) * 7 + 3}"
                else:
                    # bare decimal counters of varying length: different (estimate id, ground-truth id) pairs whose
                    # concatenations read the same ("1"+"12" and "11"+"2") are still different pairings
                    seq = DIGIT_NAMES if prefix == "x" else DIGIT_NAMES_REV
                    tbl[key] = seq[len(tbl)] if len(tbl) < len(seq) else f"3{len(tbl)}"
            return tbl[key]

        objs2 = ([[]] if history else []) + [[mk_result(rn(ren_e, s["e"], "x"), rn(ren_g, s["g"], "y"), s["ok"], slot=i, est_lab=s["el"], gt_lab=s["gl"], jitter=0.001 * (k % 7), policy=policy) for i, s in enumerate(fr)] for k, fr in enumerate(specs)]
        c2 = run_clear(objs2, n_gt, mode, thr0)
        ctx.count("C05.renamed_runs")
        ctx.check(
            close(c.mota, c2.mota, 1e-12, 0) and close(c.motp, c2.motp, 1e-12, 1e-12) and c.id_switch == c2.id_switch and c.tp == c2.tp and c.fp == c2.fp,
            "C05/scores_change_under_id_renaming",
            dict(L=L, mode=str(mode), a=dict(c.results), b=dict(c2.results)),
            "CLEAR",
        )
        ctx.case(("rnd", str(mode), min(L, 30) // 6, 0 if v is None else min(v["tot"][2], 3), 0 if v is None else min(v["carry"], 3), bool(v and v["tot"][1]), dup), nontrivial=bool(v and v["n_eval"]), sample=dict(L=L, n_obj=n_obj, mode=str(mode), results=dict(c.results)) if idx < 3 else None)


def run(ctx: Ctx) -> None:
    from ..scenario import gen_scenario, run_manager_scenarios

    with Taps(ctx) as taps:
        install(taps, ctx)
        exhaustive(ctx, 2 if ctx.quick else 3)
        named(ctx)
        random_histories(ctx, 160 if ctx.quick else 12000)

        def tracking_only(run, scene):
            for ts in scene.tracking_scores:
                mota, motp, sw = ts._sum_clear()
                ctx.check(sw == sum(c.id_switch for c in ts.clears), "C05/sum_clear_switches", dict(sw=sw), "CLEAR")

            # the history a scene-level CLEAR is given is the evaluated frames in the order they were evaluated (frame i of
            # the history holds results of the i-th add_frame_result call, identified by object identity)
            for ts in scene.tracking_scores:
                for c in ts.clears:
                    snap = getattr(c, "_verif_snap", None)
                    if snap is None:
                        continue
                    ctx.count("CLEAR.scene_histories_checked")
                    ok = len(snap) == len(run.results) + 1 and len(snap[0]) == 0
                    bad = None
                    if ok:
                        for i, fr in enumerate(run.results):
                            own = {id(x) for x in fr.object_results}
                            if any(id(x) not in own for x in snap[i + 1]):
                                ok, bad = False, i
                                break
                            if snap[i + 1]:
                                ctx.count("CLEAR.scene_history_frames_nonempty")
                    ctx.check(ok, "C05/scene_history_frames_not_in_evaluation_order", dict(n_frames=len(run.results), history_len=len(snap), first_bad_frame=bad, frame_names=[fr.frame_name for fr in run.results][:30]), "CLEAR")

        import vf.scenario as S

        orig_gen = S.gen_scenario
        S.gen_scenario = lambda r, **kw: orig_gen(r, task="tracking", big=True)
        try:
            run_manager_scenarios(ctx, "scenario", 24 if ctx.quick else 2500, after=tracking_only)
            # recordings long enough for frame numbers to cross a power of ten
            S.gen_scenario = lambda r, **kw: orig_gen(r, task="tracking", n_frames=r.randint(11, 14) if ctx.quick else r.choice([11, 12, 21, 30, 101][: 4 if r.random() < 0.97 else 5]))
            run_manager_scenarios(ctx, "long_scenario", 4 if ctx.quick else 160, after=tracking_only)
        finally:
            S.gen_scenario = orig_gen
        ctx.notes["taps"] = taps.installed
