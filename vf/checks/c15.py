"""C15 - configurations are validated; thresholds normalised to one value per label."""
from __future__ import annotations

import copy
import itertools
from numbers import Real
import random
from typing import Any, Dict, List, Optional, Tuple

from perception_eval.common import threshold as th

from perception_eval.common.evaluation_task import EvaluationTask

from ..core import Ctx, Taps, guarded, jsonable

LEVEL_TEXT = (
    "Held on every normalisation / configuration construction executed under the monitor: set_thresholds, check_thresholds and "
    "check_nested_thresholds are tapped and each call is judged against a shape grammar (expected normal form or 'must "
    "reject'; whatever is returned must be the exact normal form; normalising the result again changes nothing); the "
    "configuration constructors are driven with a valid base per task and single / double edits (delete key, add unknown key, "
    "corrupt type, add the other range kind) and judged against the documented rejection rules, and every accepted "
    "configuration must expose per-label lists of the right length with scalar entries. One specification object / one "
    "configuration dictionary is also used repeatedly with other label counts and every outcome is compared with a second "
    "execution on a fresh copy of the value as it was given."
)
LEVEL_NOTE = "Only documented rules decide accept/reject; other corruptions are don't-care for acceptance but an accepted configuration must still expose well-formed per-label lists. Known finding: unknown metric parameters are silently ignored (the pinned tests rely on it)."
TECHNIQUE = "runtime monitoring: taps on set_thresholds/check_*thresholds and the config constructors + shape-grammar oracle; exhaustive enumeration of threshold shapes up to a bound; single/double-edit config mutation"
RULE = (
    "thresholds: every spec built from a base shape (scalar; flat list len 0..n+1; nested list of inner lengths 0..n+1) with "
    "at most one deviant element drawn from {int, float, str, None, inner lists with one bad entry, too-deep list} for n in "
    "{1,2,3}, nest on/off (complete enumeration), plus random two-deviant specs; configs: 7 perception tasks + sensing x "
    "{valid base, every single edit, sampled double edits}; reuse histories: one spec object normalised 2-4 times with "
    "label counts 1..4, one evaluation_config_dict used for 2-3 evaluator configs with other label lists; non-trivial = spec that is a list (not a bare scalar) / edited "
    "config; distinct = (n, nest, shape class, verdict) resp. (task, edit kinds, verdict)"
)
ASSUMPTIONS = ["bool is not generated as a threshold entry", "a flat list whose length equals the number of labels may be read per label or per threshold (both normal forms accepted)"]
DECIDING = ["set_thresholds.checked", "C15.threshold_specs", "C15.threshold_rejected", "C15.threshold_accepted", "C15.idempotence_checked", "C15.configs_accepted", "C15.configs_rejected", "C15.must_reject_checked", "C15.exposed_lists_checked", "C15.reuse_checked", "C15.valid_frame_configs_checked", "C15.metrics_configs_checked"]
JOBS = {"quick": 2, "thorough": 8}


# ---------------------------------------------------------------------------------------
# threshold grammar
# ---------------------------------------------------------------------------------------
def is_num(x: Any) -> bool:
    return isinstance(x, Real) and not isinstance(x, bool)


def expected_normal_forms(spec: Any, n: int, nest: bool) -> Optional[List[Any]]:
    """List of admissible normal forms, or None when the spec must be rejected."""
    if not nest:
        if is_num(spec):
            return [[spec] * n]
        if isinstance(spec, list) and len(spec) > 0 and all(is_num(t) for t in spec):
            if len(spec) == 1:
                return [[spec[0]] * n]
            if len(spec) == n:
                return [list(spec)]
        return None
    if is_num(spec):
        return [[[spec] * n]]
    if not isinstance(spec, list) or len(spec) == 0:
        return None
    if all(is_num(t) for t in spec):
        forms = [[[t] * n for t in spec]]
        if len(spec) == n:
            forms.append([list(spec)])
        return forms
    if all(isinstance(t, list) for t in spec):
        out = []
        for t in spec:
            if len(t) == 0 or not all(is_num(e) for e in t):
                return None
            if len(t) == 1:
                out.append([t[0]] * n)
            elif len(t) == n:
                out.append(list(t))
            else:
                return None
        return [out]
    return None


def well_formed(value: Any, n: int, nest: bool) -> bool:
    if not nest:
        return isinstance(value, list) and len(value) == n and all(is_num(t) for t in value)
    return isinstance(value, list) and len(value) > 0 and all(isinstance(t, list) and len(t) == n and all(is_num(e) for e in t) for t in value)


def install(taps: Taps, ctx: Ctx) -> None:
    def st_factory(orig):
        def set_thresholds(thresholds, target_objects_num, nest):
            spec = copy.deepcopy(thresholds)
            try:
                out = orig(thresholds, target_objects_num, nest)
            except Exception:
                guarded(ctx, "set_thresholds", lambda: judge_thr(ctx, spec, target_objects_num, nest, None, True))
                raise
            guarded(ctx, "set_thresholds", lambda: judge_thr(ctx, spec, target_objects_num, nest, out, False))
            return out

        return set_thresholds

    taps.fn(th, "set_thresholds", st_factory)

    def chk_factory(name, nested):
        def factory(orig):
            def check(thresholds, num_elements):
                out = orig(thresholds, num_elements)
                ctx.count(f"{name}.calls")
                ctx.check(well_formed(out, num_elements, nested), "C15/check_accepts_malformed_thresholds", dict(fn=name, value=jsonable(out), n=num_elements), name)
                return out

            return check

        return factory

    taps.fn(th, "check_thresholds", chk_factory("check_thresholds", False))
    taps.fn(th, "check_nested_thresholds", chk_factory("check_nested_thresholds", True))


def judge_thr(ctx: Ctx, spec: Any, n: int, nest: bool, out: Any, raised: bool) -> None:
    tap = "set_thresholds"
    if not isinstance(n, int) or n < 1:
        return
    forms = expected_normal_forms(spec, n, nest)
    info = dict(spec=jsonable(spec), n=n, nest=nest, returned=jsonable(out), raised=raised)
    if raised:
        ctx.check(forms is None, "C15/valid_threshold_spec_rejected", info, tap)
        return
    if forms is None:
        ctx.check(False, "C15/malformed_threshold_spec_accepted", info, tap)
        return
    ctx.check(any(out == f for f in forms) and well_formed(out, n, nest), "C15/normalised_value_not_one_value_per_label", dict(info, expected=jsonable(forms)), tap)


# ---------------------------------------------------------------------------------------
# threshold workload
# ---------------------------------------------------------------------------------------
SCALARS = [2, 0.5, "a", "0.5", None]


def inner_lists(n: int) -> List[Any]:
    out: List[Any] = []
    for k in range(0, n + 2):
        out.append([1.0 + i for i in range(k)])
        for pos in range(k):
            for bad in ("x", "1.5", None):
                lst: List[Any] = [1.0 + i for i in range(k)]
                lst[pos] = bad
                out.append(lst)
    out.append([[1.0]])
    return out


def threshold_specs(n: int) -> List[Tuple[str, Any]]:
    elems = [("num", 3), ("float", 0.25), ("str", "a"), ("none", None), ("numstr", "2.5")] + [("inner", x) for x in inner_lists(n)]
    specs: List[Tuple[str, Any]] = [("scalar", s) for s in SCALARS] + [("scalar_list_dev", x) for _, x in elems[5:]]
    bases: List[Tuple[str, Any]] = [("flat", 1.5)] + [(f"nested{j}", [2.0 + i for i in range(j)]) for j in range(0, n + 2)]
    for L in range(0, n + 2):
        for bname, b in bases:
            specs.append((f"{bname}_L{L}", [copy.deepcopy(b) for _ in range(L)]))
            for pos in range(L):
                for ename, e in elems:
                    lst = [copy.deepcopy(b) for _ in range(L)]
                    lst[pos] = copy.deepcopy(e)
                    specs.append((f"{bname}_L{L}_dev_{ename}", lst))
    return specs


def drive_thresholds(ctx: Ctx) -> None:
    idx = 0
    for n in (1, 2, 3):
        specs = threshold_specs(n)
        for nest in (False, True):
            for cls, spec in specs:
                idx += 1
                if not ctx.mine(idx):
                    continue
                one_threshold(ctx, "thresholds", idx, cls, spec, n, nest)
        ctx.exhaustive[f"threshold_shapes_one_deviant_n{n}"] = True
    for i in ctx.indices("thresholds_random", 400 if ctx.quick else 20000):
        r = ctx.rng("thresholds_random", i)
        n = r.randint(1, 4)
        specs = threshold_specs(min(n, 3))
        cls, spec = r.choice(specs)
        spec = copy.deepcopy(spec)
        if isinstance(spec, list) and spec:
            p = r.randrange(len(spec))
            spec[p] = copy.deepcopy(r.choice(specs)[1]) if r.random() < 0.3 else r.choice([1, 2.5, "z", None, [], [1.0], [1.0] * n, [1.0] * (n + 1)])
        one_threshold(ctx, "thresholds_random", i, "rnd_" + cls, spec, n, r.random() < 0.5)


def one_threshold(ctx: Ctx, workload: str, idx: int, cls: str, spec: Any, n: int, nest: bool) -> None:
    ctx.begin_case(workload, idx, cls=cls, spec=jsonable(spec), n=n, nest=nest)
    ctx.count("C15.threshold_specs")
    try:
        out = th.set_thresholds(copy.deepcopy(spec), n, nest)
    except Exception:
        ctx.count("C15.threshold_rejected")
        ctx.case((n, nest, cls.split("_dev_")[0], cls.split("_dev_")[-1] if "_dev_" in cls else "-", "rejected"), nontrivial=isinstance(spec, list))
        return
    ctx.count("C15.threshold_accepted")
    # idempotence: normalising a normalised value changes nothing
    try:
        again = th.set_thresholds(copy.deepcopy(out), n, nest)
        ctx.count("C15.idempotence_checked")
        ctx.check(again == out, "C15/normalisation_not_idempotent", dict(spec=jsonable(spec), n=n, nest=nest, first=jsonable(out), second=jsonable(again)), "set_thresholds")
    except Exception as e:
        if well_formed(out, n, nest):
            ctx.violation("C15/normalisation_not_idempotent", dict(spec=jsonable(spec), n=n, nest=nest, first=jsonable(out), error=str(e)[:100]), tap="set_thresholds")
    ctx.case((n, nest, cls.split("_dev_")[0], cls.split("_dev_")[-1] if "_dev_" in cls else "-", "accepted"), nontrivial=isinstance(spec, list), sample=dict(spec=jsonable(spec), n=n, nest=nest, normal_form=jsonable(out)) if idx % 997 == 0 else None)


# ---------------------------------------------------------------------------------------
# configurations
# ---------------------------------------------------------------------------------------
METRIC_KEYS = ["center_distance_thresholds", "plane_distance_thresholds", "iou_2d_thresholds", "iou_3d_thresholds"]
PER_LABEL_FILTER_KEYS = ["max_x_position_list", "max_y_position_list", "max_distance_list", "min_distance_list", "min_point_numbers", "confidence_threshold_list", "max_matchable_radii"]


def base_config(task: str) -> Tuple[Dict[str, Any], str]:
    cfg: Dict[str, Any] = {"evaluation_task": task, "target_labels": ["car", "bicycle", "pedestrian"], "label_prefix": "autoware", "merge_similar_labels": False, "allow_matching_unknown": True}
    frame = "base_link"
    if task in ("detection", "tracking", "fp_validation", "prediction"):
        cfg.update(max_x_position=100.0, max_y_position=100.0, min_point_numbers=[0, 0, 0])
    if task.endswith("2d"):
        frame = "cam_front"
    if task == "classification2d":
        cfg.update(label_prefix="traffic_light", target_labels=["green", "red", "yellow"])
    if task not in ("classification2d", "fp_validation", "fp_validation2d"):
        cfg.update(center_distance_thresholds=[[1.0, 1.0, 1.0]], iou_2d_thresholds=[0.5])
        if not task.endswith("2d"):
            cfg.update(plane_distance_thresholds=[2.0, 3.0], iou_3d_thresholds=[0.5])
    if task == "sensing":
        cfg = {"evaluation_task": "sensing", "target_uuids": None, "box_scale_0m": 1.0, "box_scale_100m": 1.0, "min_points_threshold": 1}
    return cfg, frame


CORRUPT = ["x", None, [], ["a", "b", "c"], ["1.0", "2.0", "3.0"], [[1.0, "2.0", 3.0]], [1.0, 2.0], [[1.0], ["b"]], {"a": 1}, [1.0, 2.0, 3.0, 4.0], -1]


def edits_for(cfg: Dict[str, Any], task: str) -> List[Tuple[str, Any]]:
    out: List[Tuple[str, Any]] = []
    for k in list(cfg):
        out.append(("delete", k))
        for c in range(len(CORRUPT)):
            out.append(("corrupt", (k, c)))
    out.append(("add_unknown_metric", "foo_thresholds"))
    out.append(("add_unknown_metric", "iou_bev_thresholds"))
    out.append(("add_unknown_key", "foo"))
    out.append(("add_other_range", None))
    out.append(("add_other_range_zero", 0.0))
    out.append(("add_other_range_zero", 0))
    out.append(("add_partial_other_range", None))
    out.append(("ring_without_min", None))
    out.append(("set_task", "foo"))
    out.append(("set_task", "sensing" if task != "sensing" else "detection"))
    out.append(("add_optional", "max_matchable_radii"))
    out.append(("add_optional", "confidence_threshold"))
    out.append(("add_optional", "min_distance_list_value"))
    return out


def apply_edit(cfg: Dict[str, Any], e: Tuple[str, Any]) -> None:
    kind, arg = e
    if kind == "delete":
        cfg.pop(arg, None)
    elif kind == "corrupt":
        cfg[arg[0]] = copy.deepcopy(CORRUPT[arg[1]])
    elif kind in ("add_unknown_metric", "add_unknown_key"):
        cfg[arg] = [0.8]
    elif kind == "add_other_range":
        if "max_x_position" in cfg:
            cfg.update(max_distance=100.0, min_distance=10.0)
        else:
            cfg.update(max_x_position=100.0, max_y_position=100.0, max_distance=100.0, min_distance=10.0)
    elif kind == "add_other_range_zero":
        # falsy-but-given bounds (a minimum distance of zero is the most natural ring)
        if "max_x_position" in cfg:
            cfg.update(max_distance=100.0, min_distance=arg)
        else:
            cfg.update(max_x_position=100.0, max_y_position=100.0, max_distance=100.0, min_distance=arg)
    elif kind == "add_partial_other_range":
        cfg.update(max_distance=100.0)
    elif kind == "ring_without_min":
        # a distance ring of which only the outer bound is written (no min_distance key at all): not a complete bound
        cfg.pop("max_x_position", None)
        cfg.pop("max_y_position", None)
        cfg.pop("min_distance", None)
        cfg.update(max_distance=80.0)
    elif kind == "set_task":
        cfg["evaluation_task"] = arg
    elif kind == "add_optional":
        if arg == "max_matchable_radii":
            cfg[arg] = [2.0, 3.0, 4.0]
        elif arg == "confidence_threshold":
            cfg[arg] = 0.3
        else:
            cfg.pop("max_x_position", None)
            cfg.pop("max_y_position", None)
            cfg.update(max_distance=80.0, min_distance=[1.0, 2.0, 3.0])


PERCEPTION_TASKS = ["detection2d", "tracking2d", "classification2d", "fp_validation2d", "detection", "tracking", "prediction", "fp_validation"]


def must_reject(cfg: Dict[str, Any], cls_name: str) -> Optional[str]:
    """Documented rejection rules only. Returns the rule name or None (accept or don't care)."""
    task = cfg.get("evaluation_task")
    supported = PERCEPTION_TASKS if cls_name == "perception" else ["sensing"]
    if task not in supported:
        return "unsupported_task"
    if cls_name == "sensing":
        return None
    if "label_prefix" not in cfg:
        return "missing_label_prefix"
    is3d = task in ("detection", "tracking", "prediction", "fp_validation")
    has_xy = cfg.get("max_x_position") is not None and cfg.get("max_y_position") is not None
    has_ring = cfg.get("max_distance") is not None and cfg.get("min_distance") is not None
    if is3d and not has_xy and not has_ring:
        return "neither_range_kind"
    if is3d and has_xy and has_ring:
        return "both_range_kinds"
    if task == "detection" and cfg.get("min_point_numbers") is None:
        return "missing_min_point_numbers"
    unknown_metric = [k for k in cfg if k.endswith("_thresholds") and k not in METRIC_KEYS]
    if unknown_metric:
        return "unknown_metric_parameter"
    return None


def exposed_ok(ctx: Ctx, config: Any, info: Dict[str, Any]) -> None:
    tap = "config"
    n = len(config.target_labels) if hasattr(config, "target_labels") else None
    if n is None:
        return
    ctx.count("C15.exposed_lists_checked")
    fp = config.filtering_params
    for k in PER_LABEL_FILTER_KEYS:
        v = fp.get(k)
        if v is None:
            continue
        ctx.check(isinstance(v, list) and len(v) == n and all(is_num(x) for x in v), "C15/accepted_config_exposes_malformed_per_label_list", dict(info, key=k, value=jsonable(v), n_labels=n), tap)
    mc = getattr(config, "metrics_config", None)
    for sub in ("detection_config", "tracking_config", "classification_config"):
        c = getattr(mc, sub, None) if mc is not None else None
        if c is None:
            continue
        for k in METRIC_KEYS:
            v = getattr(c, k, None)
            if not v:
                continue
            ctx.check(all(isinstance(t, list) and len(t) == n and all(is_num(x) for x in t) for t in v), "C15/accepted_config_exposes_malformed_per_label_list", dict(info, key=f"{sub}.{k}", value=jsonable(v), n_labels=n), tap)


def try_config(ctx: Ctx, cls_name: str, cfg: Dict[str, Any], frame: str, edits: List[Tuple[str, Any]], idx: int, workload: str) -> None:
    from perception_eval.config import PerceptionEvaluationConfig, SensingEvaluationConfig

    from ..frames import scratch_dir

    cls = PerceptionEvaluationConfig if cls_name == "perception" else SensingEvaluationConfig
    info = dict(cls=cls_name, edits=jsonable(edits), cfg=jsonable(cfg), frame=frame)
    ctx.begin_case(workload, idx, **info)
    rule = must_reject(cfg, cls_name)
    accepted, err, config = True, None, None
    try:
        config = cls(dataset_paths=[], frame_id=frame, result_root_directory=scratch_dir(), evaluation_config_dict=copy.deepcopy(cfg))
    except Exception as e:
        accepted, err = False, f"{type(e).__name__}: {str(e)[:120]}"
    kinds = tuple(sorted({e[0] for e in edits}))
    if accepted:
        ctx.count("C15.configs_accepted")
        if rule is not None:
            ctx.count("C15.must_reject_checked")
            ctx.violation("C15/unknown_metric_parameter_accepted" if rule == "unknown_metric_parameter" else f"C15/config_accepted_despite_rule:{rule}", info, tap="config")
        guarded(ctx, "config", lambda: exposed_ok(ctx, config, info))
    else:
        ctx.count("C15.configs_rejected")
        if rule is not None:
            ctx.count("C15.must_reject_checked")
        if not edits:
            ctx.violation("C15/valid_config_rejected", dict(info, error=err), tap="config")
    ctx.case((cls_name, cfg.get("evaluation_task") if isinstance(cfg.get("evaluation_task"), str) else "?", kinds, "accepted" if accepted else "rejected", rule), nontrivial=bool(edits), sample=dict(info, accepted=accepted, error=err, rule=rule) if idx % 211 == 0 else None)


def drive_configs(ctx: Ctx) -> None:
    idx = 0
    tasks = [("perception", t) for t in PERCEPTION_TASKS if t != "prediction"] + [("sensing", "sensing")]
    for cls_name, task in tasks:
        base, frame = base_config(task)
        idx += 1
        if ctx.mine(idx):
            try_config(ctx, cls_name, copy.deepcopy(base), frame, [], idx, "configs")
        all_edits = edits_for(base, task)
        for e in all_edits:
            idx += 1
            if not ctx.mine(idx):
                continue
            cfg = copy.deepcopy(base)
            apply_edit(cfg, e)
            try_config(ctx, cls_name, cfg, frame, [e], idx, "configs")
        ctx.exhaustive[f"single_edits_{task}"] = True
    for i in ctx.indices("configs_double", 300 if ctx.quick else 8000):
        r = ctx.rng("configs_double", i)
        cls_name, task = r.choice(tasks)
        base, frame = base_config(task)
        es = r.sample(edits_for(base, task), 2)
        cfg = copy.deepcopy(base)
        for e in es:
            apply_edit(cfg, e)
        try_config(ctx, cls_name, cfg, frame, es, i, "configs_double")
    # target names that resolve to one label more than once (similar-label merging, a name listed twice): every list is
    # still per *entry* of the target list
    for i in ctx.indices("configs_merged", 40 if ctx.quick else 3000):
        r = ctx.rng("configs_merged", i)
        task = r.choice(["detection", "tracking"])
        cfg, frame = base_config(task)
        names = r.choice([["car", "truck", "pedestrian"], ["car", "bus", "truck"], ["bicycle", "motorbike"], ["car", "car", "pedestrian"], ["pedestrian", "truck", "bus", "car"]])
        n_ = len(names)
        cfg.update(target_labels=names, merge_similar_labels=r.random() < 0.8, min_point_numbers=[0] * n_)
        val = lambda: round(r.uniform(0.2, 3.0), 2)  # noqa: E731
        for k in METRIC_KEYS:
            shape = r.choice(["scalar", "flat", "nested_full", "nested_single"])
            v = val() if k.startswith("center") or k.startswith("plane") else round(r.uniform(0.1, 0.9), 2)
            cfg[k] = {"scalar": v, "flat": [v, v / 2], "nested_full": [[v] * n_, [v / 2] * n_], "nested_single": [[v], [v / 2]]}[shape]
        try_config(ctx, "perception", cfg, frame, [], i, "configs_merged")
    # the metrics configuration given directly: valid parameters are accepted for every task, one unknown parameter
    # makes it reject (this is the level at which the library does check parameter names, cf. known finding D9)
    from perception_eval.common.label import AutowareLabel as _AL
    from perception_eval.evaluation.metrics.metrics_score_config import MetricsScoreConfig

    for i in ctx.indices("metrics_configs", 60 if ctx.quick else 3000):
        r = ctx.rng("metrics_configs", i)
        task = r.choice([EvaluationTask.DETECTION, EvaluationTask.TRACKING, EvaluationTask.DETECTION2D, EvaluationTask.TRACKING2D, EvaluationTask.CLASSIFICATION2D])
        labels = r.sample([_AL.CAR, _AL.BUS, _AL.PEDESTRIAN, _AL.BICYCLE], r.randint(1, 3))
        params: Dict[str, Any] = dict(target_labels=labels)
        if task != EvaluationTask.CLASSIFICATION2D:
            params.update(center_distance_thresholds=[1.0], iou_2d_thresholds=[0.5])
            if task.is_3d():
                params.update(plane_distance_thresholds=[2.0], iou_3d_thresholds=[0.5])
            elif task == EvaluationTask.TRACKING2D:
                params.update(plane_distance_thresholds=None, iou_3d_thresholds=None)  # named by the tracking config, unused in 2D
        unknown = r.choice([None, "iou_bev_thresholds", "foo", "center_distance_threshold", "target_label"])
        if unknown is not None:
            params[unknown] = [0.5]
        ctx.begin_case("metrics_configs", i, task=task.value, unknown=unknown)
        ctx.count("C15.metrics_configs_checked")
        try:
            MetricsScoreConfig(task, **params)
            accepted = True
        except Exception:  # noqa: BLE001
            accepted = False
        ctx.check(accepted == (unknown is None), "C15/metrics_config_accepts_unknown_or_rejects_valid_parameters", dict(task=task.value, unknown=unknown, accepted=accepted), "config")
        ctx.case(("metrics_config", task.value, unknown is None), nontrivial=unknown is not None)
    # frame configs on top of a valid evaluation config
    from perception_eval.config import PerceptionEvaluationConfig
    from perception_eval.evaluation.result.perception_frame_config import CriticalObjectFilterConfig, PerceptionPassFailConfig

    from ..frames import scratch_dir

    base, frame = base_config("detection")
    ecfg = PerceptionEvaluationConfig(dataset_paths=[], frame_id=frame, result_root_directory=scratch_dir(), evaluation_config_dict=base)
    for i in ctx.indices("frame_configs", 200 if ctx.quick else 5000):
        r = ctx.rng("frame_configs", i)
        labels = r.sample(["car", "bicycle", "pedestrian", "truck", "bus"], r.randint(1, 4))
        n = len(labels)
        all_valid = r.random() < 0.4  # every per-label list holds exactly one number per target label of THIS config
        pick = (lambda: [round(r.uniform(1.0, 90.0), 1) for _ in range(n)]) if all_valid else (lambda: r.choice([[1.0] * n, [1.0] * (n + 1), [1.0], [], 2.0, ["a"] * n, ["1.5"] * n, None, [[1.0] * n]]))  # noqa: E731
        kw = dict(target_labels=labels, max_x_position_list=pick(), max_y_position_list=pick(), max_distance_list=pick() if r.random() < 0.3 else None, min_distance_list=pick() if r.random() < 0.3 else None, min_point_numbers=pick(), confidence_threshold_list=pick())
        ctx.begin_case("frame_configs", i, kw=jsonable(kw))
        try:
            c = CriticalObjectFilterConfig(evaluator_config=ecfg, **kw)
            ctx.count("C15.configs_accepted")
            for k in ("max_x_position_list", "max_y_position_list", "max_distance_list", "min_distance_list", "min_point_numbers", "confidence_threshold_list"):
                v = getattr(c, k)
                if v is not None:
                    ctx.check(isinstance(v, list) and len(v) == len(c.target_labels) and all(is_num(x) for x in v), "C15/accepted_config_exposes_malformed_per_label_list", dict(cls="CriticalObjectFilterConfig", key=k, value=jsonable(v), n_labels=n), "config")
            if all_valid:
                ctx.count("C15.valid_frame_configs_checked")
                ctx.check(all(getattr(c, k) == kw[k] for k in ("max_x_position_list", "max_y_position_list", "min_point_numbers", "confidence_threshold_list")), "C15/accepted_config_exposes_other_values_than_given", dict(cls="CriticalObjectFilterConfig", n_labels=n, n_evaluator_labels=len(ecfg.target_labels)), "config")
            ctx.case(("critical", "accepted", n == len(ecfg.target_labels)), nontrivial=True)
        except Exception as e:
            ctx.count("C15.configs_rejected")
            if all_valid:
                ctx.count("C15.valid_frame_configs_checked")
                ctx.violation("C15/valid_frame_config_rejected", dict(cls="CriticalObjectFilterConfig", kw=jsonable(kw), n_labels=n, n_evaluator_labels=len(ecfg.target_labels), error=f"{type(e).__name__}: {str(e)[:120]}"), tap="config")
            ctx.case(("critical", "rejected", n == len(ecfg.target_labels)), nontrivial=True)
        kw2 = dict(target_labels=labels, matching_threshold_list=pick(), confidence_threshold_list=pick())
        try:
            c2 = PerceptionPassFailConfig(evaluator_config=ecfg, **kw2)
            for k in ("matching_threshold_list", "confidence_threshold_list"):
                v = getattr(c2, k)
                if v is not None:
                    ctx.check(isinstance(v, list) and len(v) == len(c2.target_labels) and all(is_num(x) for x in v), "C15/accepted_config_exposes_malformed_per_label_list", dict(cls="PerceptionPassFailConfig", key=k, value=jsonable(v), n_labels=n), "config")
        except Exception as e:
            if all_valid:
                ctx.violation("C15/valid_frame_config_rejected", dict(cls="PerceptionPassFailConfig", kw=jsonable(kw2), n_labels=n, n_evaluator_labels=len(ecfg.target_labels), error=f"{type(e).__name__}: {str(e)[:120]}"), tap="config")


def outcome_thr(spec: Any, n: int, nest: bool) -> Tuple[str, Any]:
    try:
        return "accepted", th.set_thresholds(spec, n, nest)
    except Exception as e:  # noqa: BLE001
        return "rejected", type(e).__name__


def drive_reuse(ctx: Ctx) -> None:
    """One specification object used several times (a configuration dictionary is typically built once and reused for
    several evaluators with other label lists): what a call returns may depend on the specification as it was given,
    never on earlier normalisations of the same object. Second execution on a fresh copy of the pristine value."""
    for i in ctx.indices("thresholds_reuse", 300 if ctx.quick else 20000):
        r = ctx.rng("thresholds_reuse", i)
        kind = r.choice(["nested_singletons", "nested_mixed", "flat", "scalar", "nested_full"])
        n0 = r.randint(1, 4)
        rows = r.randint(1, 3)
        if kind == "nested_singletons":
            spec: Any = [[round(r.uniform(0.1, 5), 2)] for _ in range(rows)]
        elif kind == "nested_mixed":
            spec = [[round(r.uniform(0.1, 5), 2)] * (1 if r.random() < 0.5 else n0) for _ in range(rows)]
        elif kind == "nested_full":
            spec = [[round(r.uniform(0.1, 5), 2)] * n0 for _ in range(rows)]
        elif kind == "flat":
            spec = [round(r.uniform(0.1, 5), 2) for _ in range(r.choice([1, n0]))]
        else:
            spec = round(r.uniform(0.1, 5), 2)
        pristine = copy.deepcopy(spec)
        history = [(r.choice([n0, n0, r.randint(1, 4)]), r.random() < 0.7) for _ in range(r.randint(2, 4))]
        ctx.begin_case("thresholds_reuse", i, kind=kind, spec=jsonable(pristine), history=history)
        for step, (n, nest) in enumerate(history):
            got = outcome_thr(spec, n, nest)
            want = outcome_thr(copy.deepcopy(pristine), n, nest)
            ctx.count("C15.reuse_checked")
            ctx.check(
                got == want,
                "C15/normalisation_depends_on_earlier_use_of_the_same_specification",
                dict(kind=kind, spec_as_given=jsonable(pristine), spec_now=jsonable(spec), history=history[: step + 1], got=jsonable(got), fresh_copy=jsonable(want)),
                "set_thresholds",
            )
        ctx.case(("reuse", kind, len({h[0] for h in history}) > 1), nontrivial=len({h[0] for h in history}) > 1)
    # the same evaluation_config_dict for several evaluator configurations with other label lists
    from perception_eval.config import PerceptionEvaluationConfig

    from ..frames import scratch_dir

    pool = ["car", "bicycle", "pedestrian", "truck", "bus", "motorbike"]
    for i in ctx.indices("config_reuse", 60 if ctx.quick else 3000):
        r = ctx.rng("config_reuse", i)
        task = r.choice(["detection", "tracking", "detection2d"])
        cfg, frame = base_config(task)
        for k in ("center_distance_thresholds", "plane_distance_thresholds", "iou_2d_thresholds", "iou_3d_thresholds"):
            if k in cfg:
                cfg[k] = r.choice([[[1.0], [2.0]], [1.0, 2.0], 1.5, [[0.5]], [[1.0], [2.0], [3.0]]])
        if "min_point_numbers" in cfg:
            cfg["min_point_numbers"] = 0 if r.random() < 0.5 else [0]
        ctx.begin_case("config_reuse", i, task=task, cfg=jsonable(cfg))
        outcomes = []
        for step in range(r.randint(2, 3)):
            cfg["target_labels"] = r.sample(pool, r.randint(1, 4))
            res = []
            for c in (cfg, copy.deepcopy(cfg_pristine(cfg, outcomes))):
                try:
                    conf = PerceptionEvaluationConfig(dataset_paths=[], frame_id=frame, result_root_directory=scratch_dir(), evaluation_config_dict=c)
                    mp = conf.metrics_params
                    res.append(("accepted", jsonable({k: mp.get(k) for k in METRIC_KEYS if k in mp})))
                except Exception as e:  # noqa: BLE001
                    res.append(("rejected", type(e).__name__))
            outcomes.append((list(cfg["target_labels"]), res))
            ctx.count("C15.reuse_checked")
            ctx.check(res[0] == res[1], "C15/normalisation_depends_on_earlier_use_of_the_same_specification", dict(level="evaluation_config_dict", task=task, step=step, labels=cfg["target_labels"], reused=res[0], fresh=res[1]), "config")
        ctx.case(("config_reuse", task), nontrivial=True)


_PRISTINE: Dict[int, Any] = {}


def cfg_pristine(cfg: Dict[str, Any], outcomes: List[Any]) -> Dict[str, Any]:
    """The dictionary as the user wrote it (taken before its first use) with the current target labels."""
    key = id(cfg)
    if not outcomes:
        _PRISTINE[key] = copy.deepcopy(cfg)
    out = copy.deepcopy(_PRISTINE[key])
    out["target_labels"] = list(cfg["target_labels"])
    return out


def run(ctx: Ctx) -> None:
    with Taps(ctx) as taps:
        install(taps, ctx)
        drive_thresholds(ctx)
        drive_reuse(ctx)
        drive_configs(ctx)
        ctx.notes["taps"] = taps.installed
