"""C06 - matching scores are geometrically exact, bounded and symmetric."""
from __future__ import annotations

import itertools
import math
from typing import Any, Dict, List, Optional, Tuple

import numpy as np

from perception_eval.common.object import DynamicObject
from perception_eval.common.schema import FrameID
from perception_eval.evaluation.matching import CenterDistanceMatching, IOU2dMatching, IOU3dMatching, MatchingMode, PlaneDistanceMatching
from perception_eval.evaluation.matching import object_matching as om

from .. import matching
from ..core import BOUNDARY, Ctx, Taps, close, guarded
from ..gen import objects as O
from ..oracles import geometry as G

LEVEL_TEXT = (
    "Held on every matching-score object constructed under the monitor: the value left by MatchingMethod.__init__ is compared "
    "with shapely-free reference geometry (Sutherland-Hodgman clipping + shoelace for rotated-box IoU, own nearest-side "
    "selection for plane distance, Euclid for centre distance), range/identity/disjointness/IoU3D<=IoU2D are asserted on the "
    "same events, and symmetry and invariance under common rigid motions are decided by second executions on swapped / moved "
    "copies. Box pairs cover identical, nested, partial, touching-near, disjoint, sliver, huge and far-from-origin classes; "
    "integer ROIs on a small grid are enumerated exhaustively."
)
LEVEL_NOTE = "IoU compared at 1e-8 absolute; plane-distance cases whose nearest side is ambiguous within 1e-6 are skipped and counted; 2D centre is the documented integer ROI centre."
TECHNIQUE = "runtime monitoring: tap on MatchingMethod.__init__ + independent geometry oracle; metamorphic second executions; exhaustive integer-ROI grid"
RULE = (
    "box pairs generated per class {identical, nested, partial overlap, near-touching, disjoint, sliver 1e-3 x 50, huge 1e3, far "
    "from origin 1e4} x yaws incl. +-pi and multiples of pi/2 x all four scores x {ego frame, map frame with ego pose}; each pair "
    "also swapped, commonly rotated about the ego and commonly translated; all pairs of integer ROIs with coordinates in 0..4 "
    "(quick) / 0..6 (thorough). non-trivial = pair with overlapping footprints or a defined plane side; distinct = (kind, class, mode, frame)"
    " Later additions: label pairs vary over the box pairs (incl. unknown / false_positive members), collinear-edge pairs (known finding D16), 2D boxes with a 3D position."
)
ASSUMPTIONS = ["positive box sizes, yaw-only rotations, finite numbers", "IoU tolerance 1e-8 absolute, distances 1e-9 + 1e-7 relative"]
DECIDING = ["MatchingMethod.events_judged", "C06.symmetry_checked", "C06.rotation_checked", "C06.translation_checked", "C06.roi_pairs", "C06.plane_checked", "C06.derived_checked", "C06.collinear_checked", "C06.result_object_checked"]
JOBS = {"quick": 4, "thorough": 14}
IOU_TOL = 1e-8

KNOWN_COLLINEAR = "C06/iou_zero_for_overlapping_boxes_with_collinear_edges"

CURRENT_T: Dict[str, Any] = {"ego_T": None}


class Unaffected:
    """Metamorphic comparisons between two library values are only meaningful when neither value is an instance of the
    known finding (which the tap has already classified and recorded on the individual event)."""

    def __init__(self, ctx: Ctx):
        self.ctx = ctx
        self.k0 = ctx.counters.get("C06.known_collinear_zero", 0)

    def check(self, ok: bool, mechanism: str, detail: Any, tap: str) -> None:
        if not ok and self.ctx.counters.get("C06.known_collinear_zero", 0) != self.k0:
            self.ctx.count("C06.comparison_skipped_known_finding")
            return
        self.ctx.check(ok, mechanism, detail, tap)


def install(taps: Taps, ctx: Ctx) -> None:
    def factory(orig):
        def __init__(self, estimated_object, ground_truth_object, transforms=None):
            orig(self, estimated_object, ground_truth_object, transforms)
            if ground_truth_object is None:
                ctx.count("MatchingMethod.no_gt")
                return
            guarded(ctx, "MatchingMethod", lambda: judge(ctx, self, estimated_object, ground_truth_object, transforms))

        return __init__

    taps.method(om.MatchingMethod, "__init__", factory, tapname="MatchingMethod")


def judge(ctx: Ctx, m: Any, e: Any, g: Any, transforms: Any) -> None:
    tap = "MatchingMethod"
    mode = m.mode
    v = m.value
    is3d = isinstance(e, DynamicObject)
    info = dict(mode=str(mode), value=v, est=O.describe(e), gt=O.describe(g))
    ctx.count("MatchingMethod.events_judged")
    if mode == MatchingMode.PLANEDISTANCE:
        if O.frame_of(g) != "base_link" and transforms is None:
            return
        ref, margin = matching.oracle_score(e, g, mode, transforms)
        ctx.check(v is not None and v >= 0.0, "C06/plane_distance_negative", info, tap)
        if margin < BOUNDARY:
            ctx.count("MatchingMethod.skipped_boundary")
            return
        ctx.count("C06.plane_checked")
        ctx.check(close(float(v), ref, 2e-9, 1e-7), "C06/plane_distance_not_rms_of_nearest_side_corners", dict(info, expected=ref, margin=margin), tap)
        return
    ref, _ = matching.oracle_score(e, g, mode, transforms)
    info["expected"] = ref
    if mode == MatchingMode.CENTERDISTANCE:
        ctx.check(close(float(v), ref, 1e-9, 1e-7), "C06/center_distance_not_euclidean", info, tap)
    else:
        mech = "C06/iou2d_not_true_iou" if mode == MatchingMode.IOU2D else "C06/iou3d_not_true_iou"
        if is3d and float(v) == 0.0 and ref > IOU_TOL and G.boxes_collinear(O.box_of(e), O.box_of(g)):
            # known finding D16: the GEOS overlay returns an empty / point intersection for overlapping footprints that
            # have an edge on a common line within rounding; classified by that geometry, never by the case identity
            ctx.count("C06.known_collinear_zero")
            ctx.violation(KNOWN_COLLINEAR, info, tap=tap)
            return
        ctx.check(abs(float(v) - ref) <= IOU_TOL, mech, info, tap)
        ctx.check(-1e-12 <= float(v) <= 1.0 + 1e-9, "C06/iou_outside_unit_interval", info, tap)


def values(e: Any, g: Any, transforms: Any = None) -> Dict[str, float]:
    out = {"cd": CenterDistanceMatching(e, g).value, "iou2d": IOU2dMatching(e, g).value}
    if isinstance(e, DynamicObject):
        out["iou3d"] = IOU3dMatching(e, g).value
        out["pd"] = PlaneDistanceMatching(e, g, transforms=transforms).value
    return out


def gen_pair(r, cls: str) -> Tuple[tuple, tuple]:
    """Two boxes (x, y, z, yaw, w, l, h) in the ego frame of the requested class."""
    yaw_pool = [0.0, math.pi / 2, -math.pi / 2, math.pi, -math.pi, math.pi / 4, 1e-9, math.pi - 1e-9]
    ry = lambda: r.choice(yaw_pool) if r.random() < 0.35 else r.uniform(-math.pi, math.pi)  # noqa: E731
    base = (r.uniform(-60, 60), r.uniform(-60, 60), r.uniform(-2, 2))
    w, l, h = r.uniform(0.4, 3), r.uniform(0.4, 8), r.uniform(0.5, 3)
    yaw = ry()
    a = (*base, yaw, w, l, h)
    if cls == "identical":
        b = a
    elif cls == "nested":
        k = r.uniform(0.2, 0.9)
        b = (base[0], base[1], base[2] + r.uniform(-0.1, 0.1), yaw, w * k, l * k, h * r.uniform(0.3, 1.5))
    elif cls == "partial":
        b = (base[0] + r.uniform(-1, 1) * l * 0.6, base[1] + r.uniform(-1, 1) * w * 0.6, base[2] + r.uniform(-1, 1), ry(), r.uniform(0.4, 3), r.uniform(0.4, 8), r.uniform(0.5, 3))
    elif cls == "near_touch":
        gap = r.choice([1e-3, 1e-2, -1e-3, -1e-2])
        c, s = math.cos(yaw), math.sin(yaw)
        d = l + gap
        b = (base[0] + c * d, base[1] + s * d, base[2], yaw, w, l, h)
    elif cls == "disjoint":
        ang = r.uniform(-math.pi, math.pi)
        d = r.uniform(12, 80)
        b = (base[0] + d * math.cos(ang), base[1] + d * math.sin(ang), base[2] + r.uniform(-3, 3), ry(), r.uniform(0.4, 3), r.uniform(0.4, 8), r.uniform(0.5, 3))
    elif cls == "sliver":
        a = (*base, yaw, r.uniform(1e-3, 1e-2), r.uniform(10, 50), h)
        b = (base[0] + r.uniform(-1, 1), base[1] + r.uniform(-1, 1), base[2], ry(), r.uniform(1e-3, 3), r.uniform(5, 50), r.uniform(0.5, 3))
    elif cls == "huge":
        a = (*base, yaw, r.uniform(100, 1000), r.uniform(100, 1000), r.uniform(1, 20))
        b = (base[0] + r.uniform(-300, 300), base[1] + r.uniform(-300, 300), base[2], ry(), r.uniform(100, 1000), r.uniform(100, 1000), r.uniform(1, 20))
    elif cls == "far":
        off = (r.uniform(-1e4, 1e4), r.uniform(-1e4, 1e4))
        a = (base[0] + off[0], base[1] + off[1], base[2], yaw, w, l, h)
        b = (a[0] + r.uniform(-2, 2), a[1] + r.uniform(-2, 2), base[2] + r.uniform(-0.5, 0.5), ry(), r.uniform(0.4, 3), r.uniform(0.4, 8), r.uniform(0.5, 3))
    elif cls == "z_disjoint":
        b = (base[0] + r.uniform(-0.5, 0.5), base[1] + r.uniform(-0.5, 0.5), base[2] + h + r.uniform(2, 5), ry(), w, l, r.uniform(0.5, 2))
    else:
        raise ValueError(cls)
    return a, b


CLASSES = ["identical", "nested", "partial", "partial", "near_touch", "disjoint", "sliver", "huge", "far", "z_disjoint"]


def mk(b: tuple, frame: str, ego: Tuple[Tuple[float, float, float], float], negate: bool = False, lab: str = "car") -> Any:
    o = O.obj3d(*b, negate_q=negate, lab=lab)
    return O.to_map(o, ego[0], ego[1]) if frame == "map" else o


PAIR_LABELS = [("car", "car"), ("car", "car"), ("pedestrian", "pedestrian"), ("unknown", "car"), ("car", "unknown"), ("unknown", "unknown"), ("bus", "truck"), ("bicycle", "motorbike"), ("car", "false_positive")]


def rigid(b: tuple, theta: float, t: Tuple[float, float, float]) -> tuple:
    c, s = math.cos(theta), math.sin(theta)
    return (c * b[0] - s * b[1] + t[0], s * b[0] + c * b[1] + t[1], b[2] + t[2], G.wrap_pi(b[3] + theta), b[4], b[5], b[6])


def box_pairs(ctx: Ctx, n: int) -> None:
    for idx in ctx.indices("boxes", n):
        r = ctx.rng("boxes", idx)
        cls = CLASSES[idx % len(CLASSES)]
        a, b = gen_pair(r, cls)
        frame = r.choice(["base_link", "base_link", "map"])
        ego = ((r.uniform(-1e4, 1e4), r.uniform(-1e4, 1e4), r.uniform(-3, 3)), O.rand_yaw(r)) if r.random() < 0.5 else ((r.uniform(-30, 30), r.uniform(-30, 30), 0.0), O.rand_yaw(r))
        tr = O.transforms_for(*ego) if frame == "map" else None
        ctx.begin_case("boxes", idx, cls=cls, frame=frame, a=a, b=b, ego=ego)
        # the scores are geometry: whatever the two objects are labelled (the pair of labels rotates with the case index)
        le, lg = PAIR_LABELS[(idx // len(CLASSES)) % len(PAIR_LABELS)]
        e, g = mk(a, frame, ego, negate=r.random() < 0.3, lab=le), mk(b, frame, ego, negate=r.random() < 0.3, lab=lg)
        ua = Unaffected(ctx)
        v = values(e, g, tr)
        # symmetry (distance, IoU)
        vs = values(g, e, tr)
        ctx.count("C06.symmetry_checked")
        ua.check(close(v["cd"], vs["cd"], 1e-9, 1e-9) and abs(v["iou2d"] - vs["iou2d"]) <= IOU_TOL and abs(v["iou3d"] - vs["iou3d"]) <= IOU_TOL, "C06/score_not_symmetric", dict(cls=cls, a=v, b=vs), "MatchingMethod")
        ua.check(v["iou3d"] <= v["iou2d"] + IOU_TOL, "C06/iou3d_exceeds_iou_bev", dict(cls=cls, v=v), "MatchingMethod")
        # the scores a result object carries are those of its own pair (with the frame's transforms)
        from perception_eval.evaluation.result.object_result import DynamicObjectWithPerceptionResult

        res = DynamicObjectWithPerceptionResult(e, g, transforms=tr)
        carried = {"cd": res.center_distance.value, "iou2d": res.iou_2d.value, "iou3d": res.iou_3d.value, "pd": res.plane_distance.value}
        by_mode = {"cd": res.get_matching(MatchingMode.CENTERDISTANCE).value, "iou2d": res.get_matching(MatchingMode.IOU2D).value, "iou3d": res.get_matching(MatchingMode.IOU3D).value, "pd": res.get_matching(MatchingMode.PLANEDISTANCE).value}
        ctx.count("C06.result_object_checked")
        ua.check(carried == v and by_mode == v, "C06/result_object_carries_other_scores_than_its_pair", dict(cls=cls, frame=frame, pair=v, carried=carried, by_mode=by_mode), "MatchingMethod")
        pa, pb = G.box_corners(a[0], a[1], a[3], a[4], a[5]), G.box_corners(b[0], b[1], b[3], b[4], b[5])
        inter = G.intersection_area(pa, pb)
        if cls == "identical":
            ua.check(abs(v["iou2d"] - 1.0) <= IOU_TOL and abs(v["iou3d"] - 1.0) <= IOU_TOL and abs(v["cd"]) <= 1e-9 and abs(v["pd"]) <= 1e-9, "C06/identical_boxes_not_extreme_scores", dict(v=v), "MatchingMethod")
        if cls in ("disjoint",) or inter == 0.0:
            ctx.check(v["iou2d"] == 0.0 and v["iou3d"] == 0.0, "C06/disjoint_boxes_nonzero_iou", dict(cls=cls, v=v), "MatchingMethod")
        if cls == "z_disjoint":
            ctx.check(v["iou3d"] == 0.0, "C06/disjoint_boxes_nonzero_iou", dict(cls=cls, v=v), "MatchingMethod")
        # common rotation about the ego (all four scores) -- executed in the ego frame rendering of the same scene
        theta = r.choice([math.pi / 2, math.pi, -math.pi / 2]) if r.random() < 0.3 else r.uniform(-math.pi, math.pi)
        _, margin = G.plane_distance(a, b, None)
        e2, g2 = mk(rigid(a, theta, (0, 0, 0)), frame, ego), mk(rigid(b, theta, (0, 0, 0)), frame, ego)
        v2 = values(e2, g2, tr)
        ctx.count("C06.rotation_checked")
        scale = max(1.0, abs(a[0]), abs(a[1]))
        ok = close(v["cd"], v2["cd"], 1e-9 * scale, 1e-9) and abs(v["iou2d"] - v2["iou2d"]) <= IOU_TOL and abs(v["iou3d"] - v2["iou3d"]) <= IOU_TOL
        if margin >= BOUNDARY * 10:
            ok = ok and close(v["pd"], v2["pd"], 1e-8 * scale, 1e-7)
        ua.check(ok, "C06/score_changes_under_common_rotation_about_ego", dict(cls=cls, theta=theta, before=v, after=v2, margin=margin), "MatchingMethod")
        # common translation (distance and IoU)
        t = (r.uniform(-500, 500), r.uniform(-500, 500), r.uniform(-5, 5))
        e3, g3 = mk(rigid(a, 0.0, t), frame, ego), mk(rigid(b, 0.0, t), frame, ego)
        v3 = values(e3, g3, tr)
        ctx.count("C06.translation_checked")
        ua.check(
            close(v["cd"], v3["cd"], 1e-8, 1e-9) and abs(v["iou2d"] - v3["iou2d"]) <= 10 * IOU_TOL and abs(v["iou3d"] - v3["iou3d"]) <= 10 * IOU_TOL,
            "C06/score_changes_under_common_translation",
            dict(cls=cls, t=t, before=v, after=v3),
            "MatchingMethod",
        )
        ctx.case(("box", cls, frame, "overlap" if inter > 0 else "apart"), nontrivial=True, sample=dict(cls=cls, frame=frame, a=a, b=b, values=v) if idx < 4 else None)


def roi_pairs(ctx: Ctx, grid: int) -> None:
    rois = [(x, y, w, h) for x in range(grid) for w in range(1, grid - x + 1) for y in range(grid) for h in range(1, grid - y + 1)]
    objs = [O.obj2d(roi) for roi in rois]
    idx = 0
    complete = True
    import time

    for i, a in enumerate(objs):
        if not ctx.mine(i):
            continue
        if ctx.deadline is not None and time.time() > ctx.deadline:
            complete = False
            ctx.inconclusive.append("watchdog:roi_pairs")
            break
        for j, b in enumerate(objs):
            ctx.begin_case("roi", i * len(objs) + j, a=rois[i], b=rois[j])
            v = values(a, b)
            ctx.count("C06.roi_pairs")
            if j < i:
                continue  # symmetry is asserted once per unordered pair below
            vs = values(b, a)
            ctx.check(v["cd"] == vs["cd"] and abs(v["iou2d"] - vs["iou2d"]) <= 1e-12, "C06/score_not_symmetric", dict(a=rois[i], b=rois[j], v=v, vs=vs), "MatchingMethod")
            if i == j:
                ctx.check(abs(v["iou2d"] - 1.0) <= 1e-12 and v["cd"] == 0.0, "C06/identical_boxes_not_extreme_scores", dict(a=rois[i], v=v), "MatchingMethod")
            ra, rb = rois[i], rois[j]
            apart = ra[0] + ra[2] <= rb[0] or rb[0] + rb[2] <= ra[0] or ra[1] + ra[3] <= rb[1] or rb[1] + rb[3] <= ra[1]
            if apart:
                ctx.check(v["iou2d"] == 0.0, "C06/disjoint_boxes_nonzero_iou", dict(a=ra, b=rb, v=v), "MatchingMethod")
            ctx.case(("roi", "apart" if apart else "overlap", min(ra[2] * ra[3], 4), min(rb[2] * rb[3], 4)), nontrivial=not apart)
    ctx.exhaustive[f"integer_roi_pairs_grid_0..{grid}"] = complete


def random_rois(ctx: Ctx, n: int) -> None:
    for idx in ctx.indices("roi_random", n):
        r = ctx.rng("roi_random", idx)
        a = (r.randint(0, 4000), r.randint(0, 3000), r.randint(1, 2000), r.randint(1, 2000))
        lo = 0
        if r.random() < 0.3:
            # boxes sticking out past the left / top image border (negative offsets) are boxes like any other
            lo = -600
            a = (r.randint(-500, 200), r.randint(-500, 200), a[2], a[3])
        if r.random() < 0.6:
            b = (max(lo, a[0] + r.randint(-300, 300)), max(lo, a[1] + r.randint(-300, 300)), max(1, a[2] + r.randint(-200, 200)), max(1, a[3] + r.randint(-200, 200)))
        else:
            b = (r.randint(0, 4000), r.randint(0, 3000), r.randint(1, 2000), r.randint(1, 2000))
        ctx.begin_case("roi_random", idx, a=a, b=b)
        oa, ob = O.obj2d(a), O.obj2d(b)
        if r.random() < 0.3:
            # 2D boxes that also carry the optional 3D position of the thing they show: the 2D scores stay those of the ROIs
            oa.set_position((r.uniform(-50, 50), r.uniform(-50, 50), r.uniform(0, 5)))
            ob.set_position((r.uniform(-50, 50), r.uniform(-50, 50), r.uniform(0, 5)))
        v, vs = values(oa, ob), values(ob, oa)
        ctx.check(v["cd"] == vs["cd"] and abs(v["iou2d"] - vs["iou2d"]) <= 1e-12, "C06/score_not_symmetric", dict(a=a, b=b, v=v, vs=vs), "MatchingMethod")
        # common translation of both ROIs
        t = (r.randint(0, 500), r.randint(0, 500)) if lo == 0 else (r.randint(-500, 500), r.randint(-500, 500))
        oa2, ob2 = O.obj2d((a[0] + t[0], a[1] + t[1], a[2], a[3])), O.obj2d((b[0] + t[0], b[1] + t[1], b[2], b[3]))
        v2 = values(oa2, ob2)
        ctx.check(close(v["cd"], v2["cd"], 1e-9, 1e-12) and abs(v["iou2d"] - v2["iou2d"]) <= 1e-12, "C06/score_changes_under_common_translation", dict(a=a, b=b, t=t, v=v, v2=v2), "MatchingMethod")
        ctx.case(("roi_random", v["iou2d"] > 0), nontrivial=v["iou2d"] > 0)


def derived_pairs(ctx: Ctx, n: int) -> None:
    """Objects whose pose is replaced after scores were already computed on them (the library's own frame conversion
    and interpolation helpers copy an object and overwrite its state): every score must follow the current pose."""
    from perception_eval.common import dataset as ds_mod
    from perception_eval.common.geometry import interpolate_object_list
    from perception_eval.common.transform import TransformDict

    for idx in ctx.indices("derived", n):
        r = ctx.rng("derived", idx)
        cls = r.choice(["identical", "nested", "partial", "partial", "disjoint"])
        a, b = gen_pair(r, cls)
        ctx.begin_case("derived", idx, cls=cls, a=a, b=b)
        with ctx.case_guard("derived"):
            e, g = O.obj3d(*a, uuid="e"), O.obj3d(*b, uuid="g")
            ua = Unaffected(ctx)
            v0 = values(e, g)  # footprints / scores computed once on the originals
            ego_a = O.ego2map((r.uniform(-300, 300), r.uniform(-300, 300), 0.0), O.rand_yaw(r))
            ego_b = O.ego2map((r.uniform(-300, 300), r.uniform(-300, 300), 0.0), O.rand_yaw(r))
            em, gm = ds_mod.convert_objects_to_global([e, g], ego_a)
            for o in (em, gm):
                o.frame_id = FrameID.MAP
            vm = values(em, gm, TransformDict([ego_a]))  # judged by the tap against the *current* poses
            ua.check(abs(vm["iou2d"] - v0["iou2d"]) <= 10 * IOU_TOL and abs(vm["iou3d"] - v0["iou3d"]) <= 10 * IOU_TOL and close(vm["cd"], v0["cd"], 1e-8, 1e-9), "C06/score_changes_under_common_rigid_motion_of_derived_objects", dict(cls=cls, before=v0, after=vm), "MatchingMethod")
            eb, gb = ds_mod.convert_objects_to_base_link([em, gm], ego_b)
            for o in (eb, gb):
                o.frame_id = FrameID.BASE_LINK
            values(eb, gb)
            # a twin built from scratch at the derived pose scores 1 / 0 against the derived object
            be = O.box_of(eb)
            twin = O.obj3d(*be)
            vt = values(twin, eb)
            ua.check(abs(vt["iou2d"] - 1.0) <= 10 * IOU_TOL and abs(vt["cd"]) <= 1e-6 and abs(vt["pd"]) <= 1e-6, "C06/identical_boxes_not_extreme_scores", dict(cls="derived_twin", v=vt), "MatchingMethod")
            # interpolation between two poses
            g2 = O.obj3d(b[0] + r.uniform(-5, 5), b[1] + r.uniform(-5, 5), b[2], G.wrap_pi(b[3] + r.uniform(-1, 1)), b[4], b[5], b[6], uuid="g")
            values(e, g2)
            gi = interpolate_object_list([g], [g2], 100, 200, r.choice([100, 130, 200]))[0]
            values(e, gi)
            ctx.count("C06.derived_checked")
            ctx.case(("derived", cls), nontrivial=True)


WITNESS_D16 = dict(
    position=(4.37531692562192, 0.6678936196093224, 0.3442277595317824),
    size=(0.5756762302397676, 1.565798139314568, 2.545107936970031),
    q_est=(0.8912776707761432, 0.0, 0.0, 0.4534579512764694),
    q_gt=(0.8912776707761433, 0.0, 0.0, 0.4534579512764693),
)


def _ulp(x: float, k: int) -> float:
    for _ in range(abs(k)):
        x = float(np.nextafter(x, math.inf if k > 0 else -math.inf))
    return x


def collinear_pairs(ctx: Ctx, n: int) -> None:
    """Overlapping boxes with an edge on a common line up to rounding: copies that differ in the last bits (a ground truth
    echoed through a yaw / frame round trip), same pose with another length or width, boxes slid along their own axis.
    Index 0 is the recorded witness of known finding D16."""
    from pyquaternion import Quaternion

    for idx in ctx.indices("collinear", n):
        r = ctx.rng("collinear", idx)
        ua_k0 = ctx.counters.get("C06.known_collinear_zero", 0)
        if idx == 0:
            cls = "witness"
            W = WITNESS_D16
            g = O.obj3d(*W["position"], 0.0, *W["size"], uuid="g")
            e = O.obj3d(*W["position"], 0.0, *W["size"], uuid="e")
            g.state.orientation = Quaternion(*W["q_gt"])
            e.state.orientation = Quaternion(*W["q_est"])
            ctx.begin_case("collinear", idx, cls=cls, witness=W)
        else:
            cls = ["ulp_pose", "yaw_roundtrip", "resize", "slide", "frame_roundtrip"][idx % 5]
            yaw = r.choice([0.0, math.pi / 2, math.pi / 4, -math.pi / 2, math.pi]) if r.random() < 0.2 else r.uniform(-math.pi, math.pi)
            x, y, z = r.uniform(-60, 60), r.uniform(-60, 60), r.uniform(-1, 1)
            w, l, h = r.uniform(0.3, 4), r.uniform(0.3, 10), r.uniform(0.5, 3)
            a = (x, y, z, yaw, w, l, h)
            g = O.obj3d(*a, uuid="g")
            if cls == "ulp_pose":
                b = (_ulp(x, r.randint(-2, 2)), _ulp(y, r.randint(-2, 2)), z, _ulp(yaw, r.randint(-2, 2)), w, l, h)
                e = O.obj3d(*b, uuid="e")
            elif cls == "yaw_roundtrip":
                b = O.box_of(g)
                e = O.obj3d(*b, uuid="e")
            elif cls == "resize":
                b = (x, y, z, yaw, w, l * r.uniform(0.3, 2.0), h) if r.random() < 0.5 else (x, y, z, yaw, w * r.uniform(0.3, 2.0), l, h)
                e = O.obj3d(*b, uuid="e")
            elif cls == "slide":
                d = r.uniform(-l, l)
                b = (x + math.cos(yaw) * d, y + math.sin(yaw) * d, z, yaw, w, l * r.uniform(0.5, 1.5), h)
                e = O.obj3d(*b, uuid="e")
            else:
                ego = ((r.uniform(-300, 300), r.uniform(-300, 300), 0.0), O.rand_yaw(r))
                m = O.to_map(g, *ego)
                bm = O.box_of(m)
                # bring the map-frame copy back by the oracle's own algebra
                c, s_ = math.cos(-ego[1]), math.sin(-ego[1])
                dx, dy = bm[0] - ego[0][0], bm[1] - ego[0][1]
                b = (c * dx - s_ * dy, s_ * dx + c * dy, bm[2] - ego[0][2], G.wrap_pi(bm[3] - ego[1]), w, l, h)
                e = O.obj3d(*b, uuid="e")
            ctx.begin_case("collinear", idx, cls=cls, a=a, b=b)
        v = values(e, g)
        values(g, e)
        ctx.count("C06.collinear_checked")
        hit = ctx.counters.get("C06.known_collinear_zero", 0) != ua_k0
        ctx.case(("collinear", cls, "known_finding_instance" if hit else "exact"), nontrivial=True, sample=dict(cls=cls, values=v) if idx < 3 else None)


def run(ctx: Ctx) -> None:
    with Taps(ctx) as taps:
        install(taps, ctx)
        box_pairs(ctx, 1500 if ctx.quick else 120000)
        derived_pairs(ctx, 150 if ctx.quick else 15000)
        collinear_pairs(ctx, 1500 if ctx.quick else 150000)
        roi_pairs(ctx, 4 if ctx.quick else 6)
        random_rois(ctx, 300 if ctx.quick else 20000)
        ctx.notes["taps"] = taps.installed
