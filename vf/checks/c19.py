"""C19 - analysis tables are a faithful tabulation of the frame results."""
from __future__ import annotations

import math
import os
from typing import Any, Dict, List, Optional, Tuple

import numpy as np

from perception_eval.evaluation.result import perception_frame_result as pfr_mod

from .. import matching
from ..core import Ctx, Taps, close, guarded
from ..gen import dataset as D
from ..gen import objects as O
from ..oracles import geometry as G
from ..scenario import Run, gen_scenario

LEVEL_TEXT = (
    "Held on every analyzer table built under the monitor: PerceptionAnalyzer3D.add, get_object_status, calculate_error, "
    "summarize_error, summarize_ratio and get_confusion_matrix are tapped; after each add() the whole table is recomputed by "
    "the oracle from the same frame results (one ground-truth/estimate row pair per TP, FP, TN and FN item, positions and yaw "
    "in the ego frame by the oracle's own transform) and compared row by row; counts per status / estimate / ground truth, "
    "per-object status tallies, paired-row errors with their mean / RMS / max summaries, rate ranges, the confusion-matrix "
    "total and label / scene / area / distance selections are compared with the oracle's tabulation. Frame results come "
    "from scenario simulations through the real manager (1..3 scenes, ego and map frame, FP-labelled ground truth for TN rows)."
)
LEVEL_NOTE = "Area indices themselves are not modelled (only that selections partition the table); yaw compared modulo 2*pi."
TECHNIQUE = "runtime monitoring: taps on PerceptionAnalyzer3D.add/get_object_status/summaries + oracle re-tabulation of the same frame results"
RULE = (
    "frame results of generated scenarios evaluated by the real manager (1..3 scenes x 1..6 frames, ego or map frame, all "
    "policies, FP-labelled ground truth mixes) added to a real PerceptionAnalyzer3D with 1 / 3 / 9 area divisions; non-trivial = "
    "table with at least one paired row and one unpaired row; distinct = (frame id, task, divisions, statuses present, #scenes, matched-FP present?)"
    " Later additions: table row pairs are assigned to the frames' items by identity (scene, frame, status, ids, labels), not by row position; pickle round trips; read-only views; pooled lists with repeated frame numbers."
)
ASSUMPTIONS = ["ground-truth uuids are unique inside a frame", "yaw-only rotations"]
DECIDING = ["analyzer.tables_judged", "analyzer.rows_checked", "analyzer.paired_rows", "C19.status.TP", "C19.status.FP", "C19.status.TN", "C19.status.FN", "C19.matched_fp_rows", "get_object_status.judged", "C19.error_arrays_checked", "C19.summaries_checked", "C19.selections_checked", "C19.map_frame_tables", "C19.analyses_with_selections", "C19.ego2map_checked", "C19.pickle_roundtrips", "analyzer.clears", "C19.area_rows_checked", "C19.combined_selections_checked", "C19.read_only_views_used"]
JOBS = {"quick": 4, "thorough": 14}


def ego_pose_of(o: Any, transforms: Any) -> Tuple[float, float, float]:
    b = O.box_of(o)
    if O.frame_of(o) == "base_link":
        return b[0], b[1], b[3]
    T = matching.ego_T_of(O.frame_of(o), transforms)
    p = T @ np.array([b[0], b[1], b[2], 1.0])
    return float(p[0]), float(p[1]), G.wrap_pi(b[3] + G.yaw_of_matrix(T[:3, :3]))


def expected_rows(scenes: List[List[Any]]) -> List[Dict[str, Any]]:
    rows: List[Dict[str, Any]] = []
    for s, frames in enumerate(scenes):
        for fr in frames:
            pf = fr.pass_fail_result
            tr = fr.frame_ground_truth.transforms
            fn = int(fr.frame_name)
            for status, items in (("TP", pf.tp_object_results), ("FP", pf.fp_object_results), ("TN", pf.tn_objects), ("FN", pf.fn_objects)):
                for it in items:
                    if status in ("TP", "FP"):
                        gt, est = it.ground_truth_object, it.estimated_object
                    else:
                        gt, est = it, None
                    rows.append(dict(status=status, scene=s, frame=fn, gt=gt, est=est, gt_pose=None if gt is None else ego_pose_of(gt, tr), est_pose=None if est is None else ego_pose_of(est, tr)))
    return rows


def cell_equal(x: Any, y: Any) -> bool:
    """Equality of two table cells (scalars, None / NaN, tuples or arrays)."""
    if x is None or y is None:
        return x is None and y is None or (isinstance(x, float) and math.isnan(x) and y is None) or (isinstance(y, float) and math.isnan(y) and x is None)
    if isinstance(x, (tuple, list, np.ndarray)) or isinstance(y, (tuple, list, np.ndarray)):
        try:
            return bool(np.array_equal(np.asarray(x, dtype=float), np.asarray(y, dtype=float), equal_nan=True))
        except (TypeError, ValueError):
            return str(x) == str(y)
    if isinstance(x, float) and isinstance(y, float) and math.isnan(x) and math.isnan(y):
        return True
    return bool(x == y)


def ang_close(a: float, b: float, tol: float = 1e-6) -> bool:
    return abs(G.wrap_pi(a - b)) <= tol


def install(taps: Taps, ctx: Ctx, state: Dict[str, Any]) -> None:
    from perception_eval.tool import perception_analyzer3d as a3d
    from perception_eval.tool import perception_analyzer_base as ab

    def add_factory(orig):
        def add(self, frame_results):
            out = orig(self, frame_results)
            scenes = self.__dict__.setdefault("_verif_scenes", [])  # kept on the analyzer itself (ids are reused)
            scenes.append(list(frame_results))
            guarded(ctx, "analyzer", lambda: judge_table(ctx, self, scenes))
            return out

        return add

    taps.method(ab.PerceptionAnalyzerBase, "add", add_factory, tapname="analyzer")

    def clear_factory(orig):
        def clear(self):
            out = orig(self)
            self.__dict__["_verif_scenes"] = []
            ctx.count("analyzer.clears")
            ctx.check(len(self.df) == 0 and self.num_scene == 0 and self.num_frame == 0, "C19/clear_leaves_rows_or_counters_behind", dict(rows=len(self.df), num_scene=self.num_scene, num_frame=self.num_frame), "analyzer")
            return out

        return clear

    taps.method(ab.PerceptionAnalyzerBase, "clear", clear_factory, tapname="analyzer.clear")

    def status_factory(orig):
        def get_object_status(frame_results):
            out = orig(frame_results)
            guarded(ctx, "get_object_status", lambda: judge_status(ctx, list(frame_results), out))
            return out

        return get_object_status

    taps.fn(pfr_mod, "get_object_status", status_factory)


def _nan(v: Any) -> bool:
    return v is None or (isinstance(v, float) and math.isnan(v))


def align_rows(ctx: Ctx, rows: List[Dict[str, Any]], gt_rows: Any, est_rows: Any) -> List[Dict[str, Any]]:
    """Expected items re-ordered into the table's order. Falls back to the items' own order (TP, FP, TN, FN per frame) when
    the table's rows cannot be assigned one-to-one: the per-row comparison then reports what differs."""

    def side(row):
        if _nan(row["status"]):
            return None
        return (str(row["uuid"]), str(row["label"]))

    def obj_side(o):
        return None if o is None else (str(o.uuid), O.lab_of(o))

    table: Dict[Any, List[int]] = {}
    for i in range(len(rows)):
        g, e = gt_rows.iloc[i], est_rows.iloc[i]
        ref = g if not _nan(g["status"]) else e
        if _nan(ref["status"]):
            return rows
        key = (str(ref["status"]), int(ref["scene"]), int(ref["frame"]), side(g), side(e))
        table.setdefault(key, []).append(i)
    items: Dict[Any, List[int]] = {}
    for k, r in enumerate(rows):
        key = (r["status"], r["scene"], r["frame"], obj_side(r["gt"]), obj_side(r["est"]))
        items.setdefault(key, []).append(k)
    if set(table) != set(items) or any(len(table[k]) != len(items[k]) for k in table):
        return rows
    out: List[Any] = [None] * len(rows)

    def row_xy(i):
        g, e = gt_rows.iloc[i], est_rows.iloc[i]
        ref = g if not _nan(g["status"]) else e
        return (float(ref["x"]), float(ref["y"]))

    def item_xy(k):
        r = rows[k]
        pose = r["gt_pose"] if r["gt"] is not None else r["est_pose"]
        return (float(pose[0]), float(pose[1]))

    moved = False
    for key, idxs in table.items():
        ks = items[key]
        if len(idxs) > 1:
            idxs = sorted(idxs, key=row_xy)
            ks = sorted(ks, key=item_xy)
        for i, k in zip(idxs, ks):
            out[i] = rows[k]
            moved = moved or i != k
    if moved:
        ctx.count("C19.tables_in_another_row_order")
    return out



def judge_table(ctx: Ctx, an: Any, scenes: List[List[Any]]) -> None:
    tap = "analyzer"
    ctx.count("analyzer.tables_judged")
    ctx.evaluations += 1
    rows = expected_rows(scenes)
    df = an.df
    info = dict(n_scenes=len(scenes), n_rows_expected=len(rows), n_rows_table=len(df) // 2)
    if len(rows) == 0:
        # nothing to tabulate: the counting helpers need at least one row (pandas MultiIndex), nothing is claimed here
        ctx.count("analyzer.empty_tables")
        ctx.check(len(df) == 0, "C19/table_does_not_hold_one_row_pair_per_item", info, tap)
        return
    ctx.check(len(df) == 2 * len(rows), "C19/table_does_not_hold_one_row_pair_per_item", info, tap)
    n_status = {s: sum(1 for r in rows if r["status"] == s) for s in ("TP", "FP", "TN", "FN")}
    got_status = {"TP": an.num_tp, "FP": an.num_fp, "TN": an.num_tn, "FN": an.num_fn}
    for s in n_status:
        if n_status[s]:
            ctx.count(f"C19.status.{s}", n_status[s])
    ctx.check(got_status == n_status, "C19/per_status_counts_differ_from_pass_fail_lists", dict(info, table=got_status, frames=n_status), tap)
    from perception_eval.common.status import MatchingStatus

    by_helper = {s: (an.get_status_num(s), an.get_status_num(MatchingStatus[s])) for s in n_status}
    ctx.check(all(v == (n_status[s], n_status[s]) for s, v in by_helper.items()), "C19/per_status_counts_differ_from_pass_fail_lists", dict(info, helper="get_status_num", table=by_helper, frames=n_status), tap)
    ctx.check(an.num_scene == len(scenes) and an.num_frame == sum(len(f) for f in scenes), "C19/scene_or_frame_counter_differs_from_added_results", dict(info, num_scene=an.num_scene, num_frame=an.num_frame), tap)
    for si, frames in enumerate(scenes):
        if len({fr.frame_name for fr in frames}) != len(frames):
            continue  # several recordings pooled into one add(): frame numbers repeat, the per-frame registry is ambiguous
        for fr in frames:
            want = fr.frame_ground_truth.transforms[("base_link", "map")].matrix
            got = an.get_ego2map(si, int(fr.frame_name))
            ctx.count("C19.ego2map_checked")
            ctx.check(np.allclose(got, want, rtol=0, atol=1e-9), "C19/stored_ego_pose_differs_from_the_frames_ego_pose", dict(info, scene=si, frame=fr.frame_name), tap)
    n_est = sum(len(fr.object_results) for frames in scenes for fr in frames)
    ctx.check(an.num_estimation == n_est, "C19/estimate_count_differs_from_evaluated_estimates", dict(info, table=an.num_estimation, frames=n_est), tap)
    n_gt = sum(len(fr.frame_ground_truth.objects) for frames in scenes for fr in frames)
    n_matched_fp = sum(1 for r in rows if r["status"] == "FP" and r["gt"] is not None)
    if n_matched_fp:
        ctx.count("C19.matched_fp_rows", n_matched_fp)
    ctx.check(an.num_ground_truth == n_gt, "C19/ground_truth_count_differs_from_critical_ground_truths", dict(info, table=an.num_ground_truth, frames=n_gt, matched_fp_rows=n_matched_fp), tap)
    if len(df) != 2 * len(rows):
        return
    gt_rows = df.xs("ground_truth", level=1)
    est_rows = df.xs("estimation", level=1)
    paired = 0
    # The statement promises one row pair per item, not where in the table it stands: row pairs are assigned to the frames'
    # items by what they say they are (scene, frame, status, ids and labels of both sides; equal ones by position in the
    # ego frame), and everything below is read in the table's own order.
    rows = align_rows(ctx, rows, gt_rows, est_rows)
    ecd = an.config.evaluation_config_dict
    grid = (float(ecd["max_x_position"]), float(ecd["max_y_position"])) if ("max_x_position" in ecd and "max_y_position" in ecd) else None
    cells: Dict[Any, set] = {}
    for i, r in enumerate(rows):
        g, e = gt_rows.iloc[i], est_rows.iloc[i]
        ctx.count("analyzer.rows_checked")
        ri = dict(info, row=i, status=r["status"], scene=r["scene"], frame=r["frame"])
        for side, obj, pose, row in (("ground_truth", r["gt"], r["gt_pose"], g), ("estimation", r["est"], r["est_pose"], e)):
            if obj is None:
                ctx.check(row["status"] is None or (isinstance(row["status"], float) and math.isnan(row["status"])), "C19/row_present_for_missing_object", dict(ri, side=side, row_status=str(row["status"])), tap)
                continue
            ok = row["status"] == r["status"] and row["uuid"] == obj.uuid and row["label"] == O.lab_of(obj) and int(row["frame"]) == r["frame"] and int(row["scene"]) == r["scene"]
            ctx.check(bool(ok), "C19/row_identity_differs_from_frame_result_item", dict(ri, side=side, row=dict(status=str(row["status"]), uuid=row["uuid"], label=row["label"], frame=row["frame"], scene=row["scene"]), expected=dict(uuid=obj.uuid, label=O.lab_of(obj))), tap)
            tolp = 1e-6 + 1e-9 * max(abs(pose[0]), abs(pose[1]))
            ctx.check(abs(float(row["x"]) - pose[0]) <= tolp and abs(float(row["y"]) - pose[1]) <= tolp and ang_close(float(row["yaw"]), pose[2]), "C19/row_position_or_yaw_not_ego_frame_value", dict(ri, side=side, row=[float(row["x"]), float(row["y"]), float(row["yaw"])], expected=list(pose)), tap)
            ctx.check(close(float(row["distance"]), math.hypot(pose[0], pose[1]), 1e-6, 1e-9), "C19/row_distance_not_ego_distance", dict(ri, side=side), tap)
            # area column: the grid divides the rectangle max_x_position x max_y_position of the evaluation config around
            # the ego into 1 / 3 (along x) / 9 (3 x 3) cells; judged without assuming how the cells are numbered
            if grid is not None:
                mx, my = grid
                # a ground-truth / estimate pair is one table item and lies in ONE cell: that of its estimate
                pose = r["est_pose"] if r["est"] is not None else pose
                div = an.num_area_division
                cuts_x = [mx] + ([mx / 3.0] if div in (3, 9) else [])
                cuts_y = [my] + ([my / 3.0] if div == 9 else [])
                if min([abs(abs(pose[0]) - c) for c in cuts_x] + [abs(abs(pose[1]) - c) for c in cuts_y]) < 1e-6:
                    ctx.count("C19.area_skipped_boundary")
                else:
                    a_ = row["area"]
                    has = not (a_ is None or (isinstance(a_, float) and math.isnan(a_)))
                    inside = abs(pose[0]) < mx and abs(pose[1]) < my
                    ctx.count("C19.area_rows_checked")
                    ctx.check(has == inside, "C19/area_assigned_iff_inside_the_evaluation_range", dict(ri, side=side, ego_xy=[pose[0], pose[1]], max_x=mx, max_y=my, area=str(a_)), tap)
                    if has and inside:
                        band = lambda v, m: 0 if v > m / 3.0 else (1 if v > -m / 3.0 else 2)  # noqa: E731
                        cell = () if div == 1 else ((band(pose[0], mx),) if div == 3 else (band(pose[0], mx), band(pose[1], my)))
                        cells.setdefault(cell, set()).add(int(a_))
        if r["gt"] is not None and r["est"] is not None:
            paired += 1
    ctx.count("analyzer.paired_rows", paired)
    if cells:
        idxs = [i for v in cells.values() for i in v]
        ok_cells = all(len(v) == 1 for v in cells.values()) and len(set(idxs)) == len(cells) and all(0 <= i < an.num_area_division for i in idxs)
        ctx.check(ok_cells, "C19/area_index_not_one_per_grid_cell", dict(info, divisions=an.num_area_division, max_x=grid[0], max_y=grid[1], cells={str(k): sorted(v) for k, v in cells.items()}), tap)
    # ---- errors of paired rows and their summaries
    pairs = [r for r in rows if r["gt"] is not None and r["est"] is not None and r["status"] in ("TP", "FP", "TN")]
    exp_err = {
        "x": np.array([r["gt_pose"][0] - r["est_pose"][0] for r in pairs]),
        "y": np.array([r["gt_pose"][1] - r["est_pose"][1] for r in pairs]),
        "yaw": np.array([G.wrap_pi(r["gt_pose"][2] - r["est_pose"][2]) for r in pairs]),
        "length": np.array([r["gt"].state.size[1] - r["est"].state.size[1] for r in pairs]),
        "width": np.array([r["gt"].state.size[0] - r["est"].state.size[0] for r in pairs]),
    }
    for col, exp in exp_err.items():
        got = np.asarray(an.calculate_error(col), dtype=float).reshape(-1)
        ctx.count("C19.error_arrays_checked")
        if len(got) != len(exp):
            ctx.violation("C19/error_array_not_one_entry_per_paired_row", dict(info, column=col, got=len(got), expected=len(exp)), tap=tap)
            continue
        if len(exp) == 0:
            continue
        if col == "yaw":
            d = np.abs(np.arctan2(np.sin(got - exp), np.cos(got - exp)))
            ctx.check(bool(np.all(np.abs(got) <= math.pi + 1e-9)), "C19/yaw_error_not_wrapped_to_pm_pi", dict(info, worst=float(np.abs(got).max())), tap)
            # +pi and -pi are the same error
            ctx.check(bool(np.all(d <= 1e-6)), "C19/error_not_ground_truth_minus_estimate", dict(info, column=col, got=got[:5].tolist(), expected=exp[:5].tolist()), tap)
        else:
            tol = 2e-6 + 2e-9 * float(max(1.0, max(abs(r["gt_pose"][0]) + abs(r["gt_pose"][1]) for r in pairs)))
            ctx.check(bool(np.all(np.abs(got - exp) <= tol)), "C19/error_not_ground_truth_minus_estimate", dict(info, column=col, got=got[:5].tolist(), expected=exp[:5].tolist()), tap)
    if pairs:
        summ = an.summarize_error()
        for col in ("x", "y", "length", "width"):
            e = exp_err[col]
            exp_s = dict(average=float(np.mean(e)), rms=float(np.sqrt(np.mean(e * e))), max=float(np.max(np.abs(e))), min=float(np.min(np.abs(e))))
            got_s = summ.loc[("ALL", col)]
            ctx.count("C19.summaries_checked")
            ctx.check(all(close(float(got_s[k]), v, 1e-5, 1e-6) for k, v in exp_s.items()), "C19/error_summary_not_mean_rms_max_of_errors", dict(info, column=col, got={k: float(got_s[k]) for k in exp_s}, expected=exp_s), tap)
        # per-label rows: judged for the labels whose pairs are same-label pairs only (under which label a cross-label pair
        # is filed is not fixed by the statement)
        for lab in [l for l in an.all_labels if l != "ALL"]:
            by_gt = [i for i, r in enumerate(pairs) if O.lab_of(r["gt"]) == str(lab)]
            by_est = [i for i, r in enumerate(pairs) if O.lab_of(r["est"]) == str(lab)]
            if not by_gt or by_gt != by_est:
                continue
            for col in ("x", "y", "length", "width"):
                e = exp_err[col][by_gt]
                exp_s = dict(average=float(np.mean(e)), rms=float(np.sqrt(np.mean(e * e))), max=float(np.max(np.abs(e))), min=float(np.min(np.abs(e))))
                try:
                    got_s = summ.loc[(str(lab), col)]
                except KeyError:
                    continue
                ctx.count("C19.label_summaries_checked")
                ctx.check(all(close(float(got_s[k]), v, 1e-5, 1e-6) for k, v in exp_s.items()), "C19/error_summary_not_mean_rms_max_of_errors", dict(info, label=str(lab), column=col, got={k: float(got_s[k]) for k in exp_s}, expected=exp_s), tap)
    # ---- rates and confusion matrix
    ratio = an.summarize_ratio()
    vals = ratio.to_numpy(dtype=float)
    ctx.check(bool(np.all((vals >= -1e-12) & (vals <= 1 + 1e-12))), "C19/rate_outside_unit_interval", dict(info, ratio=ratio.to_dict()), tap)
    n_pairs_all = sum(1 for r in rows if r["gt"] is not None and r["est"] is not None)
    try:
        cm = an.get_confusion_matrix()
        total = 0 if cm is None else int(cm.to_numpy().sum())
        ctx.check(total == n_pairs_all, "C19/confusion_matrix_total_differs_from_paired_rows", dict(info, total=total, paired_rows=n_pairs_all), tap)
    except ValueError as e:
        ctx.violation("C19/confusion_matrix_raises_for_label_outside_its_axes", dict(info, error=str(e)[:150], labels=sorted({O.lab_of(r["gt"]) for r in rows if r["gt"] is not None and r["est"] is not None} | {O.lab_of(r["est"]) for r in rows if r["gt"] is not None and r["est"] is not None}), axes=an.target_labels), tap=tap)
    # ---- selections are consistent with the full table
    ctx.count("C19.selections_checked")
    for s in range(len(scenes)):
        exp_s = {st: sum(1 for r in rows if r["status"] == st and r["scene"] == s) for st in ("TP", "FP", "TN", "FN")}
        got_s = {"TP": an.get_num_tp(scene=s), "FP": an.get_num_fp(scene=s), "TN": an.get_num_tn(scene=s), "FN": an.get_num_fn(scene=s)}
        ctx.check(got_s == exp_s, "C19/scene_selection_inconsistent_with_table", dict(info, scene=s, got=got_s, expected=exp_s), tap)
    labels = sorted({O.lab_of(r["est"]) for r in rows if r["est"] is not None})
    exp_tp = sum(an.get_num_tp(label=l) for l in labels)
    exp_fp = sum(an.get_num_fp(label=l) for l in labels)
    ctx.check(exp_tp == n_status["TP"] and exp_fp == n_status["FP"], "C19/label_selection_does_not_partition_table", dict(info, tp=exp_tp, fp=exp_fp, expected=n_status), tap)
    for l in labels:
        e_tp = sum(1 for r in rows if r["status"] == "TP" and O.lab_of(r["est"]) == l)
        ctx.check(an.get_num_tp(label=l) == e_tp, "C19/label_selection_inconsistent_with_table", dict(info, label=l, got=an.get_num_tp(label=l), expected=e_tp), tap)
    # several selections at once select the rows satisfying ALL of them
    for sc in sorted({r["scene"] for r in rows}):
        for l in labels:
            e_tp = sum(1 for r in rows if r["status"] == "TP" and r["scene"] == sc and O.lab_of(r["est"]) == l)
            e_fp = sum(1 for r in rows if r["status"] == "FP" and r["scene"] == sc and O.lab_of(r["est"]) == l)
            got = (an.get_num_tp(scene=sc, label=l), an.get_num_fp(label=l, scene=sc))
            ctx.count("C19.combined_selections_checked")
            ctx.check(got == (e_tp, e_fp), "C19/combined_selection_inconsistent_with_table", dict(info, scene=sc, label=l, got=got, expected=(e_tp, e_fp)), tap)
            # get(): an item (row pair) is selected when its ground truth or its estimate satisfies each selection
            e_items = sum(1 for r in rows if r["scene"] == sc and any(o is not None and O.lab_of(o) == l for o in (r["gt"], r["est"])))
            got_items = (len(an.get(scene=sc, label=l)) // 2, len(an.get(label=l, scene=sc)) // 2)
            ctx.check(got_items == (e_items, e_items), "C19/combined_selection_inconsistent_with_table", dict(info, fn="get", scene=sc, label=l, got=got_items, expected=e_items), tap)
        for fnum in sorted({r["frame"] for r in rows if r["scene"] == sc})[:3]:
            e_est = sum(1 for r in rows if r["est"] is not None and r["scene"] == sc and r["frame"] == fnum)
            e_fn = sum(1 for r in rows if r["status"] == "FN" and r["scene"] == sc and r["frame"] == fnum)
            got = (an.get_num_estimation(scene=sc, frame=fnum), an.get_num_fn(frame=fnum, scene=sc))
            ctx.count("C19.combined_selections_checked")
            ctx.check(got == (e_est, e_fn), "C19/combined_selection_inconsistent_with_table", dict(info, scene=sc, frame=fnum, got=got, expected=(e_est, e_fn)), tap)
    areas = [a for a in set(df["area"].tolist()) if a is not None and not (isinstance(a, float) and math.isnan(a))]
    n_area_est = sum(an.get_num_estimation(area=a) for a in areas)
    n_none = int(sum(1 for v in est_rows[~est_rows["status"].isnull()]["area"].tolist() if v is None or (isinstance(v, float) and math.isnan(v))))
    ctx.check(n_area_est + n_none == n_est, "C19/area_selection_does_not_partition_table", dict(info, by_area=n_area_est, without_area=n_none, total=n_est), tap)
    # distance selection
    dmax = max([math.hypot(*p[:2]) for r in rows for p in (r["gt_pose"], r["est_pose"]) if p is not None] + [1.0])
    cut = dmax * 0.5
    sub = an.filter_by_distance((0.0, cut))
    exp_groups = sum(1 for r in rows if any(p is not None and math.hypot(*p[:2]) < cut - 1e-6 for p in (r["gt_pose"], r["est_pose"])))
    lo_groups = sum(1 for r in rows if any(p is not None and math.hypot(*p[:2]) < cut + 1e-6 for p in (r["gt_pose"], r["est_pose"])))
    ctx.check(exp_groups <= len(sub) // 2 <= lo_groups, "C19/distance_selection_inconsistent_with_table", dict(info, cut=cut, got=len(sub) // 2, expected=(exp_groups, lo_groups)), tap)
    frame_id = next((O.frame_of(r["gt"] or r["est"]) for r in rows), "none")
    if frame_id == "map":
        ctx.count("C19.map_frame_tables")
    ctx.case((frame_id, str(an.config.evaluation_task), an.num_area_division, tuple(s for s in n_status if n_status[s]), len(scenes), n_matched_fp > 0), nontrivial=paired > 0 and paired < len(rows), sample=dict(info, statuses=n_status, estimates=n_est, ground_truths=n_gt, paired=paired) if ctx.counters["analyzer.tables_judged"] <= 3 else None)


def judge_status(ctx: Ctx, frames: List[Any], infos: List[Any]) -> None:
    """One record per (ground truth, evaluated frame of the list). Frame numbers may repeat inside a list (several
    recordings pooled, a frame evaluated twice): records are then counted with their multiplicity."""
    tap = "get_object_status"
    ctx.count("get_object_status.judged")
    exp: Dict[str, List[Tuple[int, str]]] = {}
    for fr in frames:
        fn = int(fr.frame_name)
        pf = fr.pass_fail_result
        per_frame: Dict[str, str] = {}
        for r in pf.tp_object_results:
            per_frame[r.ground_truth_object.uuid] = "TP"
        for r in pf.fp_object_results:
            if r.ground_truth_object is not None and O.is_fp_label(r.ground_truth_object):
                per_frame[r.ground_truth_object.uuid] = "FP"
        for g in pf.tn_objects:
            per_frame[g.uuid] = "TN"
        for g in pf.fn_objects:
            per_frame[g.uuid] = "FN"
        for u, st in per_frame.items():
            exp.setdefault(u, []).append((fn, st))
    if len({fr.frame_name for fr in frames}) < len(frames):
        ctx.count("get_object_status.lists_with_repeated_frame_numbers")
    got = {i.uuid: i for i in infos}
    info = dict(n_frames=len(frames), n_gt=len(exp))
    ctx.check(set(got) == set(exp) and len(infos) == len(got), "C19/status_tally_objects_differ_from_ground_truths", dict(info, got=sorted(got)[:8], expected=sorted(exp)[:8]), tap)
    for u, st in got.items():
        e = exp.get(u)
        if e is None:
            continue
        ctx.check(sorted(st.total_frame_nums) == sorted(k for k, _ in e), "C19/ground_truth_not_recorded_once_per_frame", dict(info, uuid=u, recorded=sorted(st.total_frame_nums), expected=sorted(k for k, _ in e), tp=st.tp_frame_nums, fp=st.fp_frame_nums, tn=st.tn_frame_nums, fn=st.fn_frame_nums), tap)
        by = {"TP": st.tp_frame_nums, "FP": st.fp_frame_nums, "TN": st.tn_frame_nums, "FN": st.fn_frame_nums}
        for name, lst in by.items():
            ctx.check(sorted(lst) == sorted(k for k, v in e if v == name), "C19/status_tally_differs_from_frame_status", dict(info, uuid=u, status=name, recorded=sorted(lst), expected=sorted(k for k, v in e if v == name)), tap)
        rates = [r.rate for r in st.get_status_rates()]
        ctx.check(all(math.isinf(x) or -1e-12 <= x <= 1 + 1e-12 for x in rates), "C19/rate_outside_unit_interval", dict(info, uuid=u, rates=rates), tap)


def run(ctx: Ctx) -> None:
    from perception_eval.tool import PerceptionAnalyzer3D

    state: Dict[str, Any] = {}
    with Taps(ctx) as taps:
        install(taps, ctx, state)
        for idx in ctx.indices("tables", 40 if ctx.quick else 6000):
            r = ctx.rng("tables", idx)
            task = r.choice(["detection", "detection", "tracking", "fp_validation"])
            frame_id = ["base_link", "map"][idx % 2]
            n_scenes = r.choice([1, 1, 2, 3])
            div = r.choice([1, 3, 9])
            ctx.begin_case("tables", idx, task=task, frame_id=frame_id, n_scenes=n_scenes, div=div)
            with ctx.case_guard("tables"):
                base = gen_scenario(r, task=task, n_frames=r.randint(1, 4 if ctx.quick else 6))
                if idx % 4 == 1:
                    # label policy ALLOW_ANY with a confusing but accurate detector: TPs whose estimate label differs
                    # from the ground truth's label (per-label rates mix the two label sets)
                    task = "detection"
                    base = gen_scenario(r, task=task, n_frames=r.randint(2, 4), fp_share=0.0, overrides={"matching_label_policy": "ALLOW_ANY"}, det=dict(p_det=1.0, pos_sig=0.02, yaw_sig=0.05, p_conf=0.9, p_unknown=0.0, force_name="car"), categories=["car", "truck", "vehicle.bus", "bus"], target=["car", "truck", "bus"], merge=False, dt_us=100_000)
                    for pf in base.passfail:
                        pf["matching_threshold_list"] = [5.0 for _ in pf["target_labels"]]
                    if idx % 8 == 1:
                        # the plainest instance, built by hand: one car, two trucks and a bus, every one detected in place
                        # and called "car" (more TPs carry the estimate label `car` than there are car ground truths)
                        layout = [("car", "car", (6.0, 2.0)), ("truck", "truck", (12.0, -3.0)), ("truck", "truck", (18.0, 4.0)), ("bus", "bus", (-9.0, 6.0))]
                        for fk, fr_ in enumerate(base.frames):
                            fr_.gts = [dict(key=f"hand{j}", category=cat, canon=canon, box=(x + 0.5 * fk, y, 0.0, 0.1, 2.0, 4.5, 1.6), npts=40, vis="full", attrs=[]) for j, (cat, canon, (x, y)) in enumerate(layout)]
                            fr_.ests = [dict(key=f"he{fk}_{j}", name="car", box=(x + 0.5 * fk + 0.05, y, 0.0, 0.1, 2.0, 4.5, 1.6), score=round(0.9 - 0.1 * j, 3), uuid=f"ht{j}") for j, (_, _, (x, y)) in enumerate(layout)]
                        for c_ in base.critical:
                            for k_ in ("max_x_position_list", "max_y_position_list", "max_distance_list", "min_distance_list", "min_point_numbers", "confidence_threshold_list", "target_uuids", "ignore_attributes"):
                                c_.pop(k_, None)
                            c_["max_x_position_list"] = [100.0 for _ in c_["target_labels"]]
                            c_["max_y_position_list"] = [100.0 for _ in c_["target_labels"]]
                        for k_ in ("target_uuids", "ignore_attributes", "confidence_threshold", "max_matchable_radii"):
                            base.cfg.pop(k_, None)
                        base.cfg["min_point_numbers"] = [0 for _ in base.cfg["target_labels"]]
                        ctx.count("C19.hand_built_confusion_tables")
                if idx % 3 == 0 and task == "detection":
                    # FP-labelled ground truth matched inside its pass/fail threshold while `false_positive` is not an
                    # evaluator target label: the paired row carries a label outside the analyzer's label axes
                    for _ in range(30):
                        if "false_positive" not in base.cfg["target_labels"] and base.info["fp_share"] > 0:
                            break
                        base = gen_scenario(r, task=task, n_frames=r.randint(1, 4), fp_share=0.4)
                    for pf in base.passfail:
                        if "false_positive" not in pf["target_labels"]:
                            pf["target_labels"] = list(pf["target_labels"]) + ["false_positive"]
                            pf["matching_threshold_list"] = list(pf["matching_threshold_list"]) + [50.0]
                            if "confidence_threshold_list" in pf:
                                pf["confidence_threshold_list"] = list(pf["confidence_threshold_list"]) + [0.0]
                        else:
                            pf["matching_threshold_list"] = [50.0 if l == "false_positive" else t for l, t in zip(pf["target_labels"], pf["matching_threshold_list"])]
                an = None
                combine = n_scenes >= 2 and r.random() < 0.5  # several recordings added in ONE add(): frame numbers repeat
                pooled: List[Any] = []
                for s in range(n_scenes):
                    scn = base if s == 0 else gen_scenario(r, task=task, n_frames=r.randint(1, 3), overrides={k: v for k, v in base.cfg.items()})
                    if s > 0:
                        scn.cfg = dict(base.cfg)
                        nl = len(base.cfg["target_labels"])
                        for k in range(len(scn.frames)):
                            scn.critical[k] = dict(base.critical[0])
                            scn.passfail[k] = dict(base.passfail[0])
                    with D.DatasetDir(scn.scene_spec()) as dsd:
                        run_ = Run(scn, frame_id, dsd)
                        results = run_.run_all()
                        if an is None:
                            expected_frame = "base_link" if scn.task == "detection" else "map"
                            if idx % 3 == 2 and frame_id == expected_frame:
                                # the documented way in for recorded runs: the analyzer built from a scenario file (the
                                # evaluation configuration written as yaml) with the number of area divisions asked for
                                import yaml as _yaml

                                spath = os.path.join(dsd.result_root, "scenario.yaml")
                                cfg_plain = {k_: v_ for k_, v_ in scn.cfg.items() if k_ != "label_prefix"}
                                with open(spath, "w") as fh:
                                    _yaml.safe_dump({"Evaluation": {"PerceptionEvaluationConfig": {"evaluation_config_dict": cfg_plain}}}, fh)
                                an = PerceptionAnalyzer3D.from_scenario(dsd.result_root, spath, div)
                                ctx.count("C19.analyzers_from_scenario_file")
                                ctx.check(an.num_area_division == div, "C19/analyzer_from_scenario_ignores_requested_area_division", dict(requested=div, got=an.num_area_division), "analyzer")
                            else:
                                an = PerceptionAnalyzer3D(run_.config, num_area_division=div)
                        if combine:
                            pooled += results
                            if s == n_scenes - 1:
                                ctx.count("C19.combined_adds")
                                an.add(pooled)
                        else:
                            an.add(results)
                        pfr_mod.get_object_status(results)
                # ---- analyses with selections must leave the tabulated frame results untouched
                if an is not None and len(an.df) > 0:
                    scenes_ = an.__dict__.get("_verif_scenes", [])
                    before = [[(id(fr), len(fr.object_results), len(fr.frame_ground_truth.objects), len(fr.pass_fail_result.tp_object_results), len(fr.pass_fail_result.fp_object_results), len(fr.pass_fail_result.tn_objects), len(fr.pass_fail_result.fn_objects)) for fr in frames] for frames in scenes_]
                    dists = [float(v) for v in an.df["distance"].dropna().tolist()]
                    cut = (0.0, max(1.0, 0.6 * max(dists))) if dists else (0.0, 10.0)
                    for kw in (dict(distance=cut), dict(scene=0), dict(area=0), dict(distance=(cut[1] * 0.3, cut[1] * 2))):
                        try:
                            an.analyze(**kw)
                        except Exception as e:
                            ctx.count("C19.analyze_exceptions")
                            ctx.notes.setdefault("analyze_exception_samples", [])
                            if len(ctx.notes["analyze_exception_samples"]) < 3:
                                ctx.notes["analyze_exception_samples"].append(f"{kw}: {type(e).__name__}: {str(e)[:150]}")
                    after = [[(id(fr), len(fr.object_results), len(fr.frame_ground_truth.objects), len(fr.pass_fail_result.tp_object_results), len(fr.pass_fail_result.fp_object_results), len(fr.pass_fail_result.tn_objects), len(fr.pass_fail_result.fn_objects)) for fr in frames] for frames in scenes_]
                    ctx.count("C19.analyses_with_selections")
                    ctx.check(before == after, "C19/analysis_modifies_the_tabulated_frame_results", dict(before=before[0][:3], after=after[0][:3]), "analyzer")
                    # read-only views of the table (sorted copies, head / tail, shape) are queries too
                    for col in ("confidence", "x", "distance"):
                        try:
                            an.sortby(col)
                            an.sortby([col, "frame"], ascending=True)
                        except Exception:  # noqa: BLE001
                            ctx.count("C19.analyze_exceptions")
                    an.head(3), an.tail(3), an.shape()
                    ctx.count("C19.read_only_views_used")
                    judge_table(ctx, an, scenes_)  # the table must still be the tabulation of the frame results
                    for frames in scenes_:
                        pfr_mod.get_object_status(frames)
                    if len(scenes_) >= 2:
                        pfr_mod.get_object_status([fr for frames in scenes_ for fr in frames])  # several recordings pooled
                    # ---- the same frame results through the pickle entry point, after a clear(): same table
                    if idx % 2 == 0:
                        import pickle

                        from ..frames import scratch_dir

                        an2 = PerceptionAnalyzer3D(an.config, num_area_division=div)
                        an2.add(scenes_[-1])  # something to clear
                        an2.clear()
                        for k, frames in enumerate(scenes_):
                            path = os.path.join(scratch_dir(), f"c19_{os.getpid()}_{k}.pkl")
                            with open(path, "wb") as f:
                                pickle.dump(frames, f)
                            try:
                                an2.add_from_pkl(path)  # judged by the add tap against the unpickled frames
                            finally:
                                os.remove(path)
                        ctx.count("C19.pickle_roundtrips")
                        diffcols = []
                        same = len(an2.df) == len(an.df) and list(an2.df.columns) == list(an.df.columns)
                        if same:
                            a_, b_ = an.df.reset_index(drop=True), an2.df.reset_index(drop=True)
                            diffcols = [c for c in a_.columns if not all(cell_equal(x, y) for x, y in zip(a_[c].tolist(), b_[c].tolist()))]
                            same = not diffcols
                        ctx.check(same, "C19/table_from_pickled_results_after_clear_differs", dict(rows=len(an.df), rows_pkl=len(an2.df), columns=diffcols[:8]), "analyzer")
        ctx.notes["taps"] = taps.installed
