"""C18 - coordinate transforms compose and invert consistently."""
from __future__ import annotations

import math
from typing import Any, Dict, List, Optional, Tuple

import numpy as np
from pyquaternion import Quaternion

from perception_eval.common import transform as tf
from perception_eval.common.schema import FrameID
from perception_eval.common.transform import HomogeneousMatrix, TransformDict, TransformKey

from ..core import Ctx, MonitorError, Taps, close, guarded
from ..oracles import geometry as G

LEVEL_TEXT = (
    "Held on every transform operation executed under the monitor: HomogeneousMatrix carries a runtime class invariant "
    "(icontract: rigid 4x4, consistent with its position/rotation attributes), and transform / dot / inv / "
    "TransformDict.transform are tapped and compared with the oracle's own 4x4 algebra (results, source/destination labels, "
    "rejections). Round trips, two-step versus composed transforms, chains over the FrameID members and every key spelling of "
    "the registry are driven with random rotations about arbitrary axes (incl. near 0 and near pi, both quaternion signs, "
    "quaternion / 3x3 / 4x4 inputs) and translations up to 1e4."
)
LEVEL_NOTE = "Tolerances 1e-9 + 1e-9*|t| on positions (translations up to 1e4), 1e-7 on rotation matrix entries."
TECHNIQUE = "runtime monitoring: icontract class invariant on HomogeneousMatrix + taps on transform/dot/inv/TransformDict.transform with own rigid algebra"
RULE = (
    "random rigid transforms (axis/angle classes: near 0, near pi, generic; input as Quaternion, +-q tuple, 3x3 or 4x4 matrix) "
    "applied to random points/poses; chains of 2..5 distinct frames composed with dot and step by step; registries with a "
    "random subset of direct / inverse entries queried with every key spelling (enum/enum, str/str, mixed, upper-case, "
    "TransformKey), X->X and unregistered pairs; non-trivial = rotation angle > 1e-3 and non-zero translation; distinct = "
    "(workload, angle class, input kind, chain length or key spelling, query kind)"
)
ASSUMPTIONS = ["rotations are unit quaternions / proper rotation matrices", "orientation equality is up to quaternion sign"]
DECIDING = ["HomogeneousMatrix.invariant_checked", "HomogeneousMatrix.transform.checked", "HomogeneousMatrix.dot.checked", "HomogeneousMatrix.inv.checked", "TransformDict.transform.checked", "C18.mismatch_rejected", "C18.unregistered_rejected", "C18.roundtrips", "C18.chains", "C18.history_queries", "C18.call_forms_checked", "C18.refilled_buffers_checked"]
JOBS = {"quick": 2, "thorough": 14}
FRAMES = list(FrameID)


class Raised:
    def __init__(self, name: str):
        self.name = name

    def __repr__(self) -> str:
        return f"raised {self.name}"


def ptol(*vals: Any) -> float:
    m = max([1.0] + [float(np.max(np.abs(np.asarray(v, dtype=float)))) for v in vals])
    return 1e-9 + 2e-9 * m


def rot_of(q: Quaternion) -> np.ndarray:
    return G.quat_to_matrix((q.w, q.x, q.y, q.z))


def rigid_ok(self) -> bool:
    """Invariant (named condition for icontract): matrix is rigid and consistent with position / rotation."""
    m = np.asarray(self.matrix, dtype=float)
    if m.shape != (4, 4):
        return False
    r = m[:3, :3]
    ok = bool(np.abs(r.T @ r - np.eye(3)).max() < 1e-7 and abs(np.linalg.det(r) - 1.0) < 1e-7 and np.abs(m[3] - np.array([0, 0, 0, 1.0])).max() == 0.0)
    if not CALLER_REFILLS_BUFFER[0]:  # (the stored position may be the caller's own array; see the buffer workload)
        ok = ok and bool(np.abs(m[:3, 3] - np.asarray(self.position, dtype=float)).max() <= ptol(self.position) * 1e-3 + 1e-12)
    ok = ok and bool(np.abs(r - rot_of(self.rotation)).max() < 1e-7)
    ok = ok and isinstance(self.src, FrameID) and isinstance(self.dst, FrameID)
    INV_COUNT[0] += 1
    return ok


INV_COUNT = [0]
CALLER_REFILLS_BUFFER = [False]


def install(taps: Taps, ctx: Ctx) -> None:
    use_icontract = False
    try:
        import icontract

        icontract.invariant(rigid_ok, error=lambda self: MonitorError(f"C18/homogeneous_matrix_invariant_broken {self.src}->{self.dst} {np.asarray(self.matrix).tolist()}"))(HomogeneousMatrix)
        use_icontract = True
    except Exception as e:  # fall back to a plain post-init tap
        ctx.notes["icontract_error"] = repr(e)[:200]
    ctx.notes["icontract_invariant"] = use_icontract

    if not use_icontract:
        def init_factory(orig):
            def __init__(self, *a, **k):
                orig(self, *a, **k)
                ctx.check(rigid_ok(self), "C18/homogeneous_matrix_invariant_broken", dict(matrix=np.asarray(self.matrix).tolist()), "HomogeneousMatrix")

            return __init__

        taps.method(HomogeneousMatrix, "__init__", init_factory)

    def transform_factory(orig):
        def transform(self, *args, **kwargs):
            out = orig(self, *args, **kwargs)

            def j():
                tap = "HomogeneousMatrix.transform"
                M = np.asarray(self.matrix, dtype=float)
                a = list(args)
                if not a and "matrix" in kwargs:
                    a = [kwargs["matrix"]]
                elif not a and "position" in kwargs:
                    a = [kwargs["position"]] + ([kwargs["rotation"]] if "rotation" in kwargs else [])
                if len(a) == 1 and isinstance(a[0], HomogeneousMatrix):
                    other = a[0]
                    exp = np.asarray(other.matrix) @ M
                    ctx.check(np.abs(np.asarray(out.matrix) - exp).max() <= ptol(exp) and out.src == self.src and out.dst == other.dst, "C18/matrix_transform_not_product", dict(src=str(out.src), dst=str(out.dst)), tap)
                elif len(a) == 1:
                    p = np.asarray(a[0], dtype=float)
                    exp = (M @ np.append(p, 1.0))[:3]
                    ctx.check(np.abs(np.asarray(out, dtype=float) - exp).max() <= ptol(exp, p, M[:3, 3]), "C18/position_transform_not_matrix_product", dict(p=p.tolist(), out=np.asarray(out).tolist(), exp=exp.tolist()), tap)
                elif len(a) == 2:
                    p = np.asarray(a[0], dtype=float)
                    rot = a[1]
                    R = rot_of(rot) if isinstance(rot, Quaternion) else (np.asarray(rot, dtype=float)[:3, :3] if np.asarray(rot).ndim == 2 else G.quat_to_matrix(tuple(rot)))
                    exp = (M @ np.append(p, 1.0))[:3]
                    op, oq = out
                    ctx.check(np.abs(np.asarray(op, dtype=float) - exp).max() <= ptol(exp, p, M[:3, 3]), "C18/pose_transform_position_not_matrix_product", dict(p=p.tolist(), out=np.asarray(op).tolist(), exp=exp.tolist()), tap)
                    ctx.check(np.abs(rot_of(oq) - M[:3, :3] @ R).max() < 1e-7, "C18/pose_transform_rotation_not_matrix_product", dict(out=list(oq.elements)), tap)

            guarded(ctx, "HomogeneousMatrix.transform", j)
            return out

        return transform

    taps.method(HomogeneousMatrix, "transform", transform_factory)

    def dot_factory(orig):
        def dot(self, other):
            try:
                out = orig(self, other)
            except ValueError:
                ctx.check(self.src != other.dst, "C18/matching_composition_rejected", dict(self_src=str(self.src), other_dst=str(other.dst)), "HomogeneousMatrix.dot")
                ctx.count("C18.mismatch_rejected")
                raise
            exp = np.asarray(self.matrix) @ np.asarray(other.matrix)
            ctx.check(self.src == other.dst, "C18/mismatched_composition_accepted", dict(self_src=str(self.src), other_dst=str(other.dst)), "HomogeneousMatrix.dot")
            ctx.check(np.abs(np.asarray(out.matrix) - exp).max() <= ptol(exp), "C18/dot_not_matrix_product", dict(), "HomogeneousMatrix.dot")
            ctx.check(out.src == other.src and out.dst == self.dst, "C18/dot_wrong_frame_labels", dict(out=(str(out.src), str(out.dst)), expected=(str(other.src), str(self.dst))), "HomogeneousMatrix.dot")
            return out

        return dot

    taps.method(HomogeneousMatrix, "dot", dot_factory)

    def inv_factory(orig):
        def inv(self):
            out = orig(self)
            exp = G.inv_rigid(np.asarray(self.matrix, dtype=float))
            ctx.check(np.abs(np.asarray(out.matrix) - exp).max() <= ptol(exp), "C18/inv_not_inverse", dict(), "HomogeneousMatrix.inv")
            ctx.check(out.src == self.dst and out.dst == self.src, "C18/inv_keeps_frame_labels", dict(out=(str(out.src), str(out.dst))), "HomogeneousMatrix.inv")
            return out

        return inv

    taps.method(HomogeneousMatrix, "inv", inv_factory)


def rand_rotation(r) -> Tuple[Tuple[float, float, float, float], str]:
    k = r.random()
    axis = (r.gauss(0, 1), r.gauss(0, 1), r.gauss(0, 1))
    if sum(a * a for a in axis) < 1e-6:
        axis = (0.0, 0.0, 1.0)
    if r.random() < 0.3:
        axis = r.choice([(0, 0, 1), (0, 0, -1), (1, 0, 0), (0, 1, 0)])
    if k < 0.15:
        ang, cls = r.choice([0.0, 1e-9, 1e-6, -1e-6]), "near0"
    elif k < 0.3:
        ang, cls = math.pi - r.choice([0.0, 1e-9, 1e-6, 1e-3]), "nearpi"
    else:
        ang, cls = r.uniform(-math.pi, math.pi), "generic"
    q = G.quat_from_axis_angle(axis, ang)
    if r.random() < 0.5:
        q = tuple(-v for v in q)
    return q, cls


def rand_translation(r) -> Tuple[float, float, float]:
    s = r.choice([0.0, 1.0, 100.0, 1e4])
    if r.random() < 0.12:
        # whole-number coordinates given as Python ints (an integer array once the library wraps them)
        k = int(max(s, 1.0))
        return (r.randint(-k, k), r.randint(-k, k), r.randint(-3, 3))
    return (r.uniform(-s, s), r.uniform(-s, s), r.uniform(-s, s) * 0.01)


def make_matrix(r, q, t, src, dst) -> Tuple[HomogeneousMatrix, str]:
    kind = r.choice(["quat", "tuple", "m3", "m4", "m4rot"])
    if kind == "m4rot":
        # the orientation as a 4x4 matrix (rotation block, zero translation), next to a separate position
        return HomogeneousMatrix(np.array(t), G.homogeneous((0.0, 0.0, 0.0), q), src=src, dst=dst), kind
    if kind == "quat":
        return HomogeneousMatrix(np.array(t), Quaternion(*q), src=src, dst=dst), kind
    if kind == "tuple":
        return HomogeneousMatrix(t, tuple(q), src=src, dst=dst), kind
    if kind == "m3":
        return HomogeneousMatrix(np.array(t), G.quat_to_matrix(q), src=src, dst=dst), kind
    return HomogeneousMatrix.from_matrix(G.homogeneous(t, q), src=src, dst=dst), kind


def spell(r, f: FrameID, how: str):
    if how == "enum":
        return f
    if how == "str":
        return f.value
    return f.value.upper()


def run(ctx: Ctx) -> None:
    with Taps(ctx) as taps:
        install(taps, ctx)
        # ---- round trips and pose transforms ----
        for idx in ctx.indices("roundtrip", 2000 if ctx.quick else 400000):
            with ctx.case_guard("roundtrip", library_must_not_raise="C18/valid_transform_raised"):
                r = ctx.rng("roundtrip", idx)
                q, cls = rand_rotation(r)
                t = rand_translation(r)
                src, dst = r.sample(FRAMES, 2)
                ctx.begin_case("roundtrip", idx, q=q, t=t, src=src.value, dst=dst.value)
                m, kind = make_matrix(r, q, t, src if r.random() < 0.5 else src.value, dst if r.random() < 0.5 else dst.value.upper())
                ctx.check(m.src is src and m.dst is dst, "C18/frame_label_not_parsed_to_member", dict(src=str(m.src), dst=str(m.dst)), "HomogeneousMatrix")
                p = np.array(rand_translation(r))
                q2, _ = rand_rotation(r)
                inv = m.inv()
                back = inv.transform(m.transform(p))
                ctx.count("C18.roundtrips")
                ctx.check(np.abs(back - p).max() <= ptol(p, t) * 10, "C18/inverse_roundtrip_position", dict(p=p.tolist(), back=np.asarray(back).tolist(), q=q, t=t), "HomogeneousMatrix.inv")
                # the orientation of the pose in any accepted spelling (quaternion, 4 numbers, 3x3 or 4x4 rotation matrix)
                rot_spelling = r.choice(["quaternion", "tuple", "3x3", "4x4"])
                rot_in = {"quaternion": Quaternion(*q2), "tuple": tuple(q2), "3x3": G.quat_to_matrix(q2), "4x4": G.homogeneous((0.0, 0.0, 0.0), q2)}[rot_spelling]
                pp, qq = m.transform(p, rot_in)
                bp, bq = inv.transform(pp, qq)
                ctx.check(np.abs(np.asarray(bp) - p).max() <= ptol(p, t) * 10 and G.same_rotation(tuple(bq.elements), q2), "C18/inverse_roundtrip_pose", dict(p=p.tolist(), back=np.asarray(bp).tolist()), "HomogeneousMatrix.inv")
                # keyword spellings and matrix argument
                pk = m.transform(position=p)
                ctx.check(np.abs(np.asarray(pk) - np.asarray(m.transform(p))).max() == 0.0, "C18/keyword_and_positional_transform_differ", dict(), "HomogeneousMatrix.transform")
                ident = m.transform(inv) if False else inv.dot(m)
                ctx.check(np.abs(np.asarray(ident.matrix) - np.eye(4)).max() <= ptol(t) * 10 and ident.src == src and ident.dst == src, "C18/inverse_times_matrix_not_identity", dict(mat=np.asarray(ident.matrix).tolist()), "HomogeneousMatrix.inv")
                # a transform is a value: it keeps answering as built after the caller refills the array it passed in
                if idx % 3 == 0:
                    buf = np.array([float(v) for v in t])
                    m_b = HomogeneousMatrix(buf, Quaternion(*q), src=src, dst=dst)
                    want = (G.homogeneous(t, q) @ np.append(p, 1.0))[:3]
                    y1 = np.asarray(m_b.transform(p), dtype=float)
                    CALLER_REFILLS_BUFFER[0] = True
                    try:
                        buf += 7.25
                        y2 = np.asarray(m_b.transform(p), dtype=float)
                        y3 = np.asarray(m_b.transform(p, Quaternion(*q2))[0], dtype=float)
                        y4 = np.asarray(m_b.inv().transform(want), dtype=float)
                    finally:
                        buf -= 7.25
                        CALLER_REFILLS_BUFFER[0] = False
                    ctx.count("C18.refilled_buffers_checked")
                    tol_b = ptol(p, t) * 10
                    ctx.check(max(np.abs(y1 - want).max(), np.abs(y2 - want).max(), np.abs(y3 - want).max(), np.abs(y4 - p).max()) <= tol_b, "C18/transform_follows_later_changes_of_the_callers_translation_array", dict(built=y1.tolist(), after_refill=[y2.tolist(), y3.tolist()], expected=want.tolist()), "HomogeneousMatrix.transform")
                ang = 2 * math.acos(min(1.0, abs(q[0])))
                ctx.case(("roundtrip", cls, kind), nontrivial=ang > 1e-3 and any(t), sample=dict(q=q, t=t, kind=kind) if idx < 3 else None)

        # ---- chains ----
        for idx in ctx.indices("chain", 800 if ctx.quick else 200000):
            with ctx.case_guard("chain", library_must_not_raise="C18/valid_transform_raised"):
                r = ctx.rng("chain", idx)
                L = r.randint(2, 5)
                frames = r.sample(FRAMES, L + 1)
                ctx.begin_case("chain", idx, frames=[f.value for f in frames])
                mats = []
                for a, b in zip(frames[:-1], frames[1:]):
                    q, _ = rand_rotation(r)
                    mats.append(make_matrix(r, q, rand_translation(r), a, b)[0])
                p = np.array(rand_translation(r))
                q0, _ = rand_rotation(r)
                # step by step
                sp, sq = p, Quaternion(*q0)
                for m in mats:
                    sp, sq = m.transform(sp, sq)
                # composed: (m_k ... m_1)
                comp = mats[0]
                for m in mats[1:]:
                    comp = m.dot(comp)
                cp, cq = comp.transform(p, Quaternion(*q0))
                ctx.count("C18.chains")
                scale = max([1.0] + [float(np.abs(m.position).max()) for m in mats])
                ctx.check(comp.src == frames[0] and comp.dst == frames[-1], "C18/composition_wrong_frame_labels", dict(src=str(comp.src), dst=str(comp.dst)), "HomogeneousMatrix.dot")
                ctx.check(np.abs(np.asarray(cp) - np.asarray(sp)).max() <= 1e-8 * scale * L and G.same_rotation(tuple(cq.elements), tuple(sq.elements), 1e-6), "C18/composed_differs_from_stepwise", dict(step=np.asarray(sp).tolist(), comp=np.asarray(cp).tolist()), "HomogeneousMatrix.dot")
                # transform(matrix) spelling: A->B .transform(B->C) == A->C
                ac = mats[0].transform(mats[1])
                ctx.check(ac.src == frames[0] and ac.dst == frames[2], "C18/matrix_transform_wrong_labels", dict(src=str(ac.src), dst=str(ac.dst)), "HomogeneousMatrix.transform")
                # mismatched composition must be rejected
                try:
                    mats[0].dot(mats[1])  # needs mats[0].src == mats[1].dst, false for distinct frames
                    ctx.violation("C18/mismatched_composition_accepted", dict(frames=[f.value for f in frames]), tap="HomogeneousMatrix.dot")
                except ValueError:
                    pass
                ctx.case(("chain", L), nontrivial=True, sample=dict(frames=[f.value for f in frames]) if idx < 2 else None)

        # ---- registry ----
        def dict_transform_factory(orig):
            def transform(self, key, *args, **kwargs):
                ctx.count("TransformDict.transform.calls")
                return orig(self, key, *args, **kwargs)

            return transform

        taps.method(TransformDict, "transform", dict_transform_factory)
        for idx in ctx.indices("registry", 1500 if ctx.quick else 300000):
            with ctx.case_guard("registry"):
                r = ctx.rng("registry", idx)
                n = r.randint(1, 5)
                pairs = []
                while len(pairs) < n:
                    a, b = r.sample(FRAMES, 2)
                    if (a, b) not in pairs and (b, a) not in pairs:
                        pairs.append((a, b))
                reg: Dict[Tuple[FrameID, FrameID], np.ndarray] = {}
                mats = []
                for a, b in pairs:
                    q, _ = rand_rotation(r)
                    m, _ = make_matrix(r, q, rand_translation(r), a, b)
                    mats.append(m)
                    reg[(a, b)] = np.asarray(m.matrix, dtype=float)
                td = TransformDict(mats if r.random() < 0.8 or n > 1 else mats[0])
                ctx.begin_case("registry", idx, pairs=[(a.value, b.value) for a, b in pairs])
                for _ in range(6):
                    kind = r.choice(["direct", "inverse", "same", "missing"])
                    if kind == "direct":
                        a, b = r.choice(pairs)
                        exp = reg[(a, b)]
                    elif kind == "inverse":
                        b, a = r.choice(pairs)
                        exp = G.inv_rigid(reg[(b, a)])
                    elif kind == "same":
                        a = b = r.choice(FRAMES)
                        exp = np.eye(4)
                    else:
                        for _try in range(20):
                            a, b = r.sample(FRAMES, 2)
                            if (a, b) not in reg and (b, a) not in reg:
                                break
                        else:
                            continue
                        exp = None
                    hows = (r.choice(["enum", "str", "upper"]), r.choice(["enum", "str", "upper"]))
                    if kind == "same" and "upper" in hows:
                        # upper-case names are only documented for FrameID.from_value; for X->X the raw key members are
                        # compared before parsing, so mixed-case spellings of one frame are outside what is claimed here
                        hows = ("upper", "upper")
                    ka, kb = spell(r, a, hows[0]), spell(r, b, hows[1])
                    key_kind = r.choice(["tuple", "key", "list"])
                    if key_kind == "key":
                        key: Any = TransformKey(ka, kb)
                    elif key_kind == "list":
                        key = [ka, kb] if hows == ("enum", "enum") or True else (ka, kb)
                    else:
                        key = (ka, kb)
                    p = np.array(rand_translation(r))
                    info = dict(kind=kind, key=[str(ka), str(kb)], key_kind=key_kind, registered=[(x.value, y.value) for x, y in pairs])
                    # upper-case spellings are only meaningful through TransformKey / str parsing
                    try:
                        if kind == "same" and hows != ("enum", "enum") and key_kind != "key" and hows[0] != hows[1]:
                            # 'base_link' vs FrameID.BASE_LINK must be treated as the same frame
                            pass
                        out = td.transform(key, p)
                    except KeyError:
                        ctx.count("TransformDict.transform.checked")
                        if kind == "missing":
                            ctx.count("C18.unregistered_rejected")
                        else:
                            ctx.violation("C18/registered_transform_not_found", info, tap="TransformDict.transform")
                        continue
                    except Exception as e:
                        ctx.count("TransformDict.transform.checked")
                        ctx.violation(f"C18/registry_query_raised:{type(e).__name__}", dict(info, error=str(e)[:200]), tap="TransformDict.transform")
                        continue
                    ctx.count("TransformDict.transform.checked")
                    if kind == "missing":
                        ctx.violation("C18/unregistered_transform_answered", info, tap="TransformDict.transform")
                        continue
                    if kind == "same":
                        ctx.check(out is p or np.array_equal(np.asarray(out), p), "C18/same_frame_query_changes_input", dict(info, p=p.tolist(), out=np.asarray(out).tolist()), "TransformDict.transform")
                        continue
                    e = (exp @ np.append(p, 1.0))[:3]
                    ctx.check(np.abs(np.asarray(out, dtype=float) - e).max() <= ptol(e, p) * 10, "C18/registry_answer_not_direct_or_inverse_entry", dict(info, out=np.asarray(out).tolist(), exp=e.tolist()), "TransformDict.transform")
                    if key_kind == "key":
                        # a key object kept by the caller and used again (a loop over points, a cached key): same question,
                        # same answer, and the caller's key still names the frames it was built with
                        for rep in range(2):
                            ctx.count("C18.reused_key_objects")
                            try:
                                out_r = td.transform(key, p.copy())
                                ok_r = np.abs(np.asarray(out_r, dtype=float) - e).max() <= ptol(e, p) * 10
                            except Exception as ex:  # noqa: BLE001
                                out_r, ok_r = f"{type(ex).__name__}: {str(ex)[:80]}", False
                            ctx.check(ok_r, "C18/registry_answer_changes_when_the_same_key_object_is_used_again", dict(info, repeat=rep + 1, first=np.asarray(out).tolist(), again=out_r if isinstance(out_r, str) else np.asarray(out_r).tolist()), "TransformDict.transform")
                    ctx.case(("registry", kind, hows[0], hows[1], key_kind), nontrivial=True)
        # ---- call forms: keyword and positional spellings of one query answer alike (direct, inverse and X->X)
        for idx in ctx.indices("call_forms", 300 if ctx.quick else 60000):
            with ctx.case_guard("call_forms"):
                r = ctx.rng("call_forms", idx)
                a, b, c = r.sample(FRAMES, 3)
                q1, _ = rand_rotation(r)
                q2, _ = rand_rotation(r)
                m1, _ = make_matrix(r, q1, rand_translation(r), a, b)
                m2, _ = make_matrix(r, q2, rand_translation(r), c, a)
                td = TransformDict([m1])
                p = np.array(rand_translation(r))
                qq, _ = rand_rotation(r)
                rot = Quaternion(*qq)
                ctx.begin_case("call_forms", idx, src=a.value, dst=b.value)

                def same_pose(x, y):
                    if isinstance(x, HomogeneousMatrix) or isinstance(y, HomogeneousMatrix):
                        return isinstance(x, HomogeneousMatrix) and isinstance(y, HomogeneousMatrix) and x.src is y.src and x.dst is y.dst and np.allclose(x.matrix, y.matrix, rtol=0, atol=1e-12)
                    if isinstance(x, tuple) != isinstance(y, tuple):
                        return False
                    if isinstance(x, tuple):
                        return np.allclose(np.asarray(x[0], dtype=float), np.asarray(y[0], dtype=float), rtol=0, atol=1e-12) and np.allclose(Quaternion(x[1]).elements, Quaternion(y[1]).elements, rtol=0, atol=1e-12)
                    return np.allclose(np.asarray(x, dtype=float), np.asarray(y, dtype=float), rtol=0, atol=1e-12)

                for target, who in ((m1, "HomogeneousMatrix"), (td, "direct"), (td, "inverse"), (td, "same")):
                    key = {"direct": (a, b), "inverse": (b, a), "same": (a, a)}.get(who)
                    call = (lambda *x, **k: target.transform(*x, **k)) if key is None else (lambda *x, **k: target.transform(key, *x, **k))  # noqa: E731
                    # a matrix argument continues the chain: its source is the destination of the queried transform
                    other = make_matrix(r, q2, rand_translation(r), {"inverse": a, "same": a}.get(who, b), c)[0] if r.random() < 0.8 else m2
                    forms = [
                        ("position", lambda: call(p), lambda: call(position=p)),
                        ("position+rotation", lambda: call(p, rot), lambda: call(position=p, rotation=rot)),
                        ("position+rotation", lambda: call(p, rot), lambda: call(rotation=rot, position=p)),  # keywords in the other order
                        ("matrix", lambda: call(other), lambda: call(matrix=other)),
                    ]
                    for fname, pos_form, kw_form in forms:
                        ctx.count("C18.call_forms_checked")
                        try:
                            x = pos_form()
                        except Exception as e:  # noqa: BLE001
                            x = Raised(type(e).__name__)
                        try:
                            y = kw_form()
                        except Exception as e:  # noqa: BLE001
                            y = Raised(type(e).__name__)
                        ctx.count(f"C18.call_forms.{who}.{fname}.{'raised' if isinstance(x, Raised) else 'answered'}")
                        if isinstance(x, Raised) or isinstance(y, Raised):
                            ok = isinstance(x, Raised) and isinstance(y, Raised) and x.name == y.name
                        else:
                            ok = same_pose(x, y)
                        ctx.check(ok, "C18/keyword_and_positional_call_forms_differ", dict(target=who, form=fname, positional=str(x)[:120], keyword=str(y)[:120]), "TransformDict.transform")
                        if who == "same" and not isinstance(x, Raised) and not isinstance(y, Raised):
                            # X->X returns its input unchanged, whichever form was used
                            given = {"position": p, "position+rotation": (p, rot), "matrix": other}[fname]
                            ctx.check(same_pose(x, given) and same_pose(y, given), "C18/same_frame_query_changes_input", dict(form=fname), "TransformDict.transform")
                ctx.case(("call_forms",), nontrivial=True)
        # ---- registry histories: queries interleaved with re-registration, deletion and copies
        import copy as _copy

        for idx in ctx.indices("registry_history", 300 if ctx.quick else 200000):
            with ctx.case_guard("registry_history"):
                r = ctx.rng("registry_history", idx)
                frames = r.sample(FRAMES, r.randint(2, 4))
                model: Dict[Tuple[FrameID, FrameID], np.ndarray] = {}
                td = TransformDict()
                ctx.begin_case("registry_history", idx, frames=[f.value for f in frames])
                ops = []
                for step in range(r.randint(4, 14)):
                    op = r.choice(["set", "set", "query", "query", "query", "del", "copy"])
                    if op == "set":
                        a, b = r.sample(frames, 2)
                        if (b, a) in model and (a, b) not in model and r.random() < 0.5:
                            a, b = b, a  # prefer replacing an existing registration
                        q, _ = rand_rotation(r)
                        m, _k = make_matrix(r, q, rand_translation(r), a, b)
                        key = r.choice([(a, b), (a.value, b.value), TransformKey(a, b), (a, b.value)])
                        td[key] = m
                        model[(a, b)] = np.asarray(m.matrix, dtype=float)
                        ops.append(f"set {a.value}->{b.value}")
                    elif op == "del" and model:
                        a, b = r.choice(sorted(model, key=lambda k: (k[0].value, k[1].value)))
                        del td[r.choice([(a, b), (a.value, b.value), TransformKey(a, b)])]
                        del model[(a, b)]
                        ops.append(f"del {a.value}->{b.value}")
                    elif op == "copy":
                        td = _copy.deepcopy(td) if r.random() < 0.7 else _copy.copy(td)
                        ops.append("copy")
                    else:
                        a, b = r.sample(frames, 2)
                        p = np.array(rand_translation(r))
                        exp = model.get((a, b))
                        if exp is None and (b, a) in model:
                            exp = G.inv_rigid(model[(b, a)])
                        ops.append(f"query {a.value}->{b.value}")
                        ctx.count("C18.history_queries")
                        # plain accessors answer for the registered direction only, under every key spelling
                        direct = model.get((a, b))
                        for key in ((a, b), (a.value, b.value), TransformKey(a, b)):
                            try:
                                item = td[key]
                            except KeyError:
                                item = None
                            got = td.get(key)
                            ok = (item is got) and ((direct is None) == (item is None)) and (item is None or np.array_equal(np.asarray(item.matrix, dtype=float), direct))
                            ctx.check(ok, "C18/registry_accessor_disagrees_with_registrations", dict(ops=ops[-8:], key=str(key), have_direct=direct is not None, item=item is not None, get=got is not None), "TransformDict.transform")
                        keys_now = sorted((k.src.value, k.dst.value) for k in td.keys())
                        want_keys = sorted((x.value, y.value) for x, y in model)
                        ctx.check(keys_now == want_keys and len(td) == len(model) and sorted((k.src.value, k.dst.value) for k in td) == want_keys and sorted((k.src.value, k.dst.value) for k, _ in td.items()) == want_keys, "C18/registry_accessor_disagrees_with_registrations", dict(ops=ops[-8:], keys=keys_now, expected=want_keys, len=len(td)), "TransformDict.transform")
                        try:
                            out = td.transform(r.choice([(a, b), (a.value, b.value), TransformKey(a, b)]), p)
                        except KeyError:
                            ctx.check(exp is None, "C18/registered_transform_not_found", dict(ops=ops[-8:]), "TransformDict.transform")
                            if exp is None:
                                ctx.count("C18.unregistered_rejected")
                            continue
                        if exp is None:
                            ctx.violation("C18/unregistered_transform_answered", dict(ops=ops[-8:]), tap="TransformDict.transform")
                            continue
                        e = (exp @ np.append(p, 1.0))[:3]
                        ctx.check(np.abs(np.asarray(out, dtype=float) - e).max() <= ptol(e, p) * 10, "C18/registry_answer_not_current_direct_or_inverse_entry", dict(ops=ops[-8:], out=np.asarray(out).tolist(), exp=e.tolist()), "TransformDict.transform")
                ctx.case(("registry_history", len(frames), "del" in " ".join(ops), "copy" in ops), nontrivial=True, sample=dict(ops=ops) if idx < 2 else None)
        ctx.counters["HomogeneousMatrix.invariant_checked"] = INV_COUNT[0]
        ctx.notes["taps"] = taps.installed
