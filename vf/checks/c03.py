"""C03 - per-frame TP/FP/FN/TN accounting conserves objects."""
from __future__ import annotations

import warnings
from typing import Any, Dict, List, Optional

import numpy as np

from perception_eval.evaluation.matching import MatchingMode
import perception_eval.evaluation.result.perception_frame_result as frame_result_mod

from .. import matching
from ..core import BOUNDARY, Ctx, Taps, guarded
from ..gen import objects as O
from ..oracles import geometry as G

LEVEL_TEXT = (
    "Held on every frame evaluated by the real PerceptionFrameResult.evaluate_frame under the monitor: an offline accounting "
    "checker run at the end of each frame (identity-based conservation results = TP + FP, ordinary critical GT = GT(TP) + FN, "
    "FP-labelled critical GT = TN + GT(matched FP)), the TP predicate re-evaluated with the oracle's own plane distance, and a "
    "region check of every counted object in ego coordinates with the oracle's own transform. Frames come from scenario "
    "simulations through the real manager in ego and map frame and from directly constructed hostile frames."
)
LEVEL_NOTE = "Ground truths of a frame are pairwise distinct (the library identifies them by value equality); decisions within 1e-6 of a bound are skipped and counted."
TECHNIQUE = "runtime monitoring: tap on PerceptionFrameResult.evaluate_frame + offline conservation/exactly-once checker + region oracle"
RULE = (
    "frames = (a) every frame of generated driving scenarios loaded through the real manager from a synthetic T4 dataset "
    "(ego or map frame, random manager filters, per-frame critical box/ring narrower than the manager filter, pass/fail "
    "thresholds tiny..huge, all policies, FP-labelled GT mixes, 1..4 frames); (b) directly constructed frames with objects "
    "placed around the critical bounds; non-trivial = frame with >=1 result and >=1 critical GT; distinct = distinct "
    "signatures (frame id, task, policy, range kind, buckets populated among TP/FP-noGT/FP-matched/FP-matchedFPGT/FN/TN, objects removed?)"
    " Later additions: pass/fail configurations with their own per-label confidence lists, zero thresholds, shared configuration objects across frames, 2D frames."
)
ASSUMPTIONS = [
    "ground-truth objects of one frame are pairwise distinct under the library's object equality",
    "a position within 1e-6 of a critical bound or a plane distance within 1e-6 of its threshold is not judged",
    "critical-filter labels cover the evaluator's target labels (the library requires it)",
]
DECIDING = ["C03.frames_checked", "C03.removed_by_critical", "C03.map_frames", "C03.bucket.tp", "C03.bucket.fn", "C03.bucket.tn", "C03.bucket.fp_matched_fpgt", "C03.region_checked"]
JOBS = {"quick": 4, "thorough": 14}


def label_index(labels: List[Any], lab: Any) -> Optional[int]:
    for i, t in enumerate(labels):
        if t is lab or t == lab:
            return i
    return None


def ego_xy(o: Any, transforms: Any) -> Optional[np.ndarray]:
    from perception_eval.common.object import DynamicObject

    if not isinstance(o, DynamicObject):
        return None  # 2D objects carry no position: no range criterion applies
    b = O.box_of(o)
    fr = O.frame_of(o)
    if fr == "base_link":
        return np.array(b[:3])
    T = matching.ego_T_of(fr, transforms)
    if T is None:
        return None
    return (T @ np.array([b[0], b[1], b[2], 1.0]))[:3]


def region_ok(ctx: Ctx, o: Any, is_gt: bool, params: Dict[str, Any], transforms: Any) -> Optional[bool]:
    """True/False = inside/outside the critical region for its label; None = not judged (boundary / no rule)."""
    if O.is_fp_label(o):
        return True
    labels = params["target_labels"]
    idx = label_index(labels, o.semantic_label.label)
    unknown_rule = (not is_gt) and O.is_unknown_label(o) and label_index(labels, o.semantic_label.label) is None
    if idx is None and not unknown_rule:
        return None
    p = ego_xy(o, transforms)
    if p is None:
        return None

    def bound(lst):
        return float(np.mean(lst)) if unknown_rule else float(lst[idx])

    verdict = True
    for key, val, upper in (
        ("max_x_position_list", abs(p[0]), True),
        ("max_y_position_list", abs(p[1]), True),
        ("max_distance_list", float(np.hypot(p[0], p[1])), True),
        ("min_distance_list", float(np.hypot(p[0], p[1])), False),
    ):
        lst = params.get(key)
        if lst is None:
            continue
        b = bound(lst)
        if abs(val - b) < BOUNDARY:
            ctx.count("C03.skipped_boundary")
            return None
        if (upper and not val < b) or (not upper and not val > b):
            verdict = False
    return verdict


def install(taps: Taps, ctx: Ctx) -> None:
    def factory(orig):
        def evaluate_frame(self, *args, **kwargs):
            before_results = list(self.object_results)
            before_gt = list(self.frame_ground_truth.objects)
            out = orig(self, *args, **kwargs)
            guarded(ctx, "evaluate_frame", lambda: judge(ctx, self, before_results, before_gt))
            return out

        return evaluate_frame

    taps.method(frame_result_mod.PerceptionFrameResult, "evaluate_frame", factory)


def judge(ctx: Ctx, fr: Any, before_results: List[Any], before_gt: List[Any]) -> None:
    tap = "evaluate_frame"
    pf = fr.pass_fail_result
    # the criteria as the configuration object states them (its attributes), not the dictionary the library passes around
    cc = pf.critical_object_filter_config
    params = {k: getattr(cc, k, None) for k in ("target_labels", "ignore_attributes", "max_x_position_list", "max_y_position_list", "max_distance_list", "min_distance_list", "min_point_numbers", "confidence_threshold_list", "target_uuids")}
    transforms = fr.frame_ground_truth.transforms
    results = list(fr.object_results)
    crit_gt = list(fr.frame_ground_truth.objects)
    tp, fp, fn, tn = list(pf.tp_object_results), list(pf.fp_object_results), list(pf.fn_objects), list(pf.tn_objects)
    frame_id = O.frame_of(results[0].estimated_object) if results else (O.frame_of(crit_gt[0]) if crit_gt else "none")
    info = dict(frame=fr.frame_name, frame_id=frame_id, n_before=len(before_results), n_results=len(results), n_gt_before=len(before_gt), n_gt=len(crit_gt), tp=len(tp), fp=len(fp), fn=len(fn), tn=len(tn))
    ctx.count("C03.frames_checked")
    ctx.evaluations += 1
    if frame_id == "map":
        ctx.count("C03.map_frames")
    if len(results) < len(before_results) or len(crit_gt) < len(before_gt):
        ctx.count("C03.removed_by_critical")

    # filtered lists are sub-lists of what went in (identity)
    ids_before = {id(r) for r in before_results}
    ctx.check(all(id(r) in ids_before for r in results), "C03/alien_result_after_filter", info, tap)
    ids_gt_before = {id(g) for g in before_gt}
    ctx.check(all(id(g) in ids_gt_before for g in crit_gt), "C03/alien_ground_truth_after_filter", info, tap)

    # (a) results = TP + FP, exactly once, by identity of the estimate
    est_ids = sorted(id(r.estimated_object) for r in results)
    tpfp_ids = sorted([id(r.estimated_object) for r in tp] + [id(r.estimated_object) for r in fp])
    ctx.check(est_ids == tpfp_ids, "C03/results_not_partitioned_into_tp_fp", dict(info, missing=len(set(est_ids) - set(tpfp_ids)), extra=len(set(tpfp_ids) - set(est_ids)), dup=len(tpfp_ids) - len(set(tpfp_ids))), tap)

    # (b) ground-truth conservation
    ordinary = sorted(id(g) for g in crit_gt if not O.is_fp_label(g))
    fplab = sorted(id(g) for g in crit_gt if O.is_fp_label(g))
    gt_tp = [id(r.ground_truth_object) for r in tp if r.ground_truth_object is not None]
    matched_fp_fpgt = [id(r.ground_truth_object) for r in fp if r.ground_truth_object is not None and O.is_fp_label(r.ground_truth_object)]
    ctx.check(all(r.ground_truth_object is not None for r in tp), "C03/tp_without_ground_truth", info, tap)
    acc_ord = sorted(gt_tp + [id(g) for g in fn])
    ctx.check(
        ordinary == acc_ord,
        "C03/ordinary_gt_not_tp_plus_fn",
        dict(info, n_ordinary=len(ordinary), n_accounted=len(acc_ord), uncounted=len(set(ordinary) - set(acc_ord)), extra=len(set(acc_ord) - set(ordinary)), dup=len(acc_ord) - len(set(acc_ord))),
        tap,
    )
    acc_fp = sorted([id(g) for g in tn] + matched_fp_fpgt)
    ctx.check(
        fplab == acc_fp,
        "C03/fp_labelled_gt_not_tn_plus_matched_fp",
        dict(info, n_fp_labelled=len(fplab), n_accounted=len(acc_fp), uncounted=len(set(fplab) - set(acc_fp)), extra=len(set(acc_fp) - set(fplab)), dup=len(acc_fp) - len(set(acc_fp))),
        tap,
    )
    with warnings.catch_warnings():
        warnings.simplefilter("ignore")
        n_fail_old = pf.get_fail_object_num()  # deprecated spelling of get_num_fail()
    ctx.check(
        pf.get_num_success() == len(tp) + len(tn) and pf.get_num_fail() == len(fp) + len(fn) and n_fail_old == len(fp) + len(fn),
        "C03/success_fail_counts",
        dict(info, success=pf.get_num_success(), fail=pf.get_num_fail(), fail_deprecated=n_fail_old, tp=len(tp), fp=len(fp), fn=len(fn), tn=len(tn)),
        tap,
    )

    # (c) TP predicate
    cfg = pf.frame_pass_fail_config
    is2d = cfg.evaluation_task.is_2d()
    mode = MatchingMode.IOU2D if is2d else MatchingMode.PLANEDISTANCE
    for r in tp:
        g, e = r.ground_truth_object, r.estimated_object
        if g is None:
            continue
        ctx.check(matching.compatible(r.matching_label_policy, e, g), "C03/tp_label_incompatible", dict(info, est=O.describe(e), gt=O.describe(g), policy=str(r.matching_label_policy.value)), tap)
        ctx.check(not O.is_fp_label(g), "C03/tp_on_fp_labelled_gt", dict(info, est=O.describe(e), gt=O.describe(g)), tap)
        thr = matching.label_threshold(g, cfg.target_labels, cfg.matching_threshold_list)
        if thr is not None:
            s, amb = matching.oracle_score(e, g, mode, transforms)
            if amb < BOUNDARY or matching.threshold_margin(mode, s, thr) < BOUNDARY:
                ctx.count("C03.skipped_boundary")
            else:
                ctx.check(matching.better(mode, s, thr), "C03/tp_beyond_threshold", dict(info, score=s, threshold=thr, est=O.describe(e), gt=O.describe(g)), tap)

    # (d) nothing outside the critical region is counted
    for r in results:
        ok = region_ok(ctx, r.estimated_object, False, params, transforms)
        if ok is not None:
            ctx.count("C03.region_checked")
            ctx.check(ok, "C03/estimate_outside_critical_region_counted", dict(info, est=O.describe(r.estimated_object), ego_xyz=ego_xy(r.estimated_object, transforms)), tap)
    conf = params.get("confidence_threshold_list")
    if conf is not None:
        for r in results:
            e = r.estimated_object
            i_ = label_index(params["target_labels"], e.semantic_label.label)
            if i_ is None or O.is_fp_label(e) or abs(e.semantic_score - conf[i_]) < 1e-12:
                continue
            ctx.count("C03.confidence_checked")
            ctx.check(e.semantic_score > conf[i_], "C03/estimate_below_critical_confidence_counted", dict(info, est=O.describe(e), threshold=conf[i_]), tap)
    for g in crit_gt:
        ok = region_ok(ctx, g, True, params, transforms)
        if ok is not None:
            ctx.count("C03.region_checked")
            ctx.check(ok, "C03/ground_truth_outside_critical_region_counted", dict(info, gt=O.describe(g), ego_xyz=ego_xy(g, transforms)), tap)

    # (e) the deprecated spellings of the same split (divide_tp_fp_objects / get_fn_objects) conserve objects too
    if results and cfg.matching_threshold_list is not None:
        from perception_eval.evaluation.matching import objects_filter as of_mod

        with warnings.catch_warnings():
            warnings.simplefilter("ignore")
            tp2, fp2 = of_mod.divide_tp_fp_objects(results, cfg.target_labels, mode, cfg.matching_threshold_list)
            fn2 = of_mod.get_fn_objects(crit_gt, results, tp2)
        ctx.count("C03.deprecated_helpers_checked")
        ids2 = sorted([id(r) for r in tp2] + [id(r) for r in fp2])
        ctx.check(
            ids2 == sorted(id(r) for r in results) and all(r.ground_truth_object is not None for r in tp2) and all(any(r is x for x in fp2) for r in results if r.ground_truth_object is None),
            "C03/results_not_partitioned_into_tp_fp",
            dict(info, helper="divide_tp_fp_objects", n_tp=len(tp2), n_fp=len(fp2)),
            tap,
        )
        gt_tp2 = {id(r.ground_truth_object) for r in tp2}
        want_fn2 = [id(g) for g in crit_gt if id(g) not in gt_tp2]
        # get_fn_objects identifies ground truths by the library's object equality (pose and label), not by identity
        if not is2d and len({(round(float(g.state.position[0]), 9), round(float(g.state.position[1]), 9)) for g in crit_gt}) == len(crit_gt):
            ctx.check([id(g) for g in fn2] == want_fn2, "C03/ordinary_gt_not_tp_plus_fn", dict(info, helper="get_fn_objects", n_fn=len(fn2), expected=len(want_fn2)), tap)

    buckets = dict(
        tp=len(tp),
        fp_nogt=sum(1 for r in fp if r.ground_truth_object is None),
        fp_matched=sum(1 for r in fp if r.ground_truth_object is not None and not O.is_fp_label(r.ground_truth_object)),
        fp_matched_fpgt=len(matched_fp_fpgt),
        fn=len(fn),
        tn=len(tn),
    )
    for k, v in buckets.items():
        if v:
            ctx.count(f"C03.bucket.{k}", v)
    rng_kind = "xy" if params.get("max_x_position_list") is not None else "ring" if params.get("max_distance_list") is not None else "none"
    sig = ("frame", frame_id, str(cfg.evaluation_task), rng_kind, tuple(k for k, v in buckets.items() if v), len(results) < len(before_results), len(crit_gt) < len(before_gt))
    ctx.case(sig, nontrivial=bool(results) and bool(crit_gt), sample=dict(info, buckets=buckets) if ctx.counters["C03.frames_checked"] <= 3 else None)


def run(ctx: Ctx) -> None:
    from ..frames import run_direct_frames, run_direct_frames_2d
    from ..scenario import run_manager_scenarios

    with Taps(ctx) as taps:
        install(taps, ctx)
        def recheck(run, scene):
            # a frame's accounting still holds once later frames (with their own critical filters) have been evaluated:
            # the stored results of every earlier frame are exactly its TP and FP results (by estimate identity)
            for k, fr in enumerate(run.manager.frame_results):
                pf = fr.pass_fail_result
                stored = sorted(id(r.estimated_object) for r in fr.object_results)
                counted = sorted(id(r.estimated_object) for r in list(pf.tp_object_results) + list(pf.fp_object_results))
                ctx.count("C03.stored_frames_rechecked")
                ctx.check(stored == counted, "C03/stored_frame_results_no_longer_tp_plus_fp_after_later_frames", dict(frame=fr.frame_name, position=k, n_frames=len(run.manager.frame_results), stored=len(stored), tp=len(pf.tp_object_results), fp=len(pf.fp_object_results), task=run.scn.task), "evaluate_frame")

        run_manager_scenarios(ctx, "scenario", 120 if ctx.quick else 6000, after=recheck)
        run_direct_frames(ctx, "direct_frames", 300 if ctx.quick else 20000)
        run_direct_frames_2d(ctx, "direct_frames_2d", 150 if ctx.quick else 8000)
        ctx.notes["taps"] = taps.installed
