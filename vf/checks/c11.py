"""C11 - classification pairs objects by identity and scores them by label agreement."""
from __future__ import annotations

import itertools
import math
from typing import Any, Dict, List, Optional, Sequence, Tuple

from perception_eval.common.evaluation_task import EvaluationTask
from perception_eval.common.label import AutowareLabel, TrafficLightLabel
from perception_eval.common.object2d import DynamicObject2D
from perception_eval.common.schema import FrameID
from perception_eval.evaluation.matching import objects_filter as of_mod
from perception_eval.evaluation.metrics.classification import accuracy as acc_mod
from perception_eval.evaluation.metrics.classification import classification_metrics_score as cms_mod
from perception_eval.evaluation.result import object_result as or_mod

from ..core import Ctx, Taps, close, guarded
from ..gen import objects as O

def _lib_of():
    # library functions are called from the modules that define them (not through a name another module happens to import)
    import perception_eval.evaluation.matching.objects_filter as m

    return m


def _lib_or():
    import perception_eval.evaluation.result.object_result as m

    return m


LEVEL_TEXT = (
    "Held on every ROI-less pairing and every classification score computed under the monitor: get_object_results is tapped "
    "and, for ROI-less 2D inputs, its result is judged by a reference written from the statement (same camera, each object "
    "used at most once, generic objects paired iff same uuid, traffic lights: number of label-equal pairs equals the maximum "
    "achievable under the configured rule and no same-uuid pair is left apart); ClassificationAccuracy.__init__ and "
    "ClassificationMetricsScore._summarize are tapped and compared with the counting definitions (range, perfect case). Small "
    "object sets are enumerated exhaustively, larger ones sampled, and classification frames run through the real frame evaluation."
)
LEVEL_NOTE = "uuids are unique and non-null per side and camera (the statement's precondition)."
TECHNIQUE = "runtime monitoring: taps on get_object_results (id-based matchers) and ClassificationAccuracy/ClassificationMetricsScore + reference pairing / counting model; exhaustive small-scope enumeration"
RULE = (
    "exhaustive: all pairs of estimate / ground-truth sets with <= 2 (quick) / <= 3 (thorough) objects per side over 2 cameras x 3 "
    "uuids x 3 labels, both uuid-first settings, traffic-light and generic label families; random sets up to 40 objects with "
    "shuffled order; metric scores for every target-label subset; classification2d frames through "
    "PerceptionFrameResult.evaluate_frame. non-trivial = both sides non-empty with at least one shared camera; distinct = "
    "(family, uuid_first, n_est, n_gt, #same-uuid pairs class, #same-label pairs class)"
    " Later additions: estimates stamped microseconds to tens of milliseconds off their ground truth; alias spellings of label names; random label policies."
)
ASSUMPTIONS = ["unique non-null uuids per side and camera", "labels are equal when their enum members are equal"]
DECIDING = ["C11.tlr_calls_judged", "C11.generic_calls_judged", "ClassificationAccuracy.judged", "C11.summaries_judged", "C11.perfect_cases", "C11.frames", "C11.repeated_scorings"]
JOBS = {"quick": 4, "thorough": 14}

CAMS = [FrameID.CAM_TRAFFIC_LIGHT_NEAR, FrameID.CAM_TRAFFIC_LIGHT_FAR]
CAMS_GENERIC = [FrameID.CAM_FRONT, FrameID.CAM_BACK]
TL_LABELS = ["green", "red", "unknown"]
AW_LABELS = ["car", "bus", "unknown"]


def same_label(e: Any, g: Any) -> bool:
    return e.semantic_label.label is g.semantic_label.label


def install(taps: Taps, ctx: Ctx) -> None:
    def gor_factory(orig):
        def get_object_results(*args, **kwargs):
            from ..matching import bind_args

            a = bind_args(args, kwargs)
            ests, gts = list(a["estimated_objects"]), list(a["ground_truth_objects"])
            out = orig(*args, **kwargs)
            if ests and gts and isinstance(ests[0], DynamicObject2D) and (ests[0].roi is None or gts[0].roi is None):
                guarded(ctx, "get_object_results", lambda: judge_pairing(ctx, a, ests, gts, out))
            return out

        return get_object_results

    taps.fn(or_mod, "get_object_results", gor_factory)

    def acc_factory(orig):
        def __init__(self, object_results, num_ground_truth, target_labels):
            orig(self, object_results, num_ground_truth, target_labels)
            guarded(ctx, "ClassificationAccuracy", lambda: judge_accuracy(ctx, self, object_results))

        return __init__

    taps.method(acc_mod.ClassificationAccuracy, "__init__", acc_factory, tapname="ClassificationAccuracy")

    def sum_factory(orig):
        def _summarize(self):
            out = orig(self)
            guarded(ctx, "ClassificationMetricsScore", lambda: judge_summary(ctx, self, out))
            return out

        return _summarize

    taps.method(cms_mod.ClassificationMetricsScore, "_summarize", sum_factory, tapname="ClassificationMetricsScore")


def judge_pairing(ctx: Ctx, a: Dict[str, Any], ests: List[Any], gts: List[Any], results: List[Any]) -> None:
    tap = "get_object_results"
    is_tlr = isinstance(ests[0].semantic_label.label, TrafficLightLabel)
    uuid_first = bool(a.get("uuid_matching_first"))
    e_idx = {id(o): i for i, o in enumerate(ests)}
    g_idx = {id(o): j for j, o in enumerate(gts)}
    info = dict(tlr=is_tlr, uuid_first=uuid_first, ests=[(O.frame_of(o), o.uuid, O.lab_of(o)) for o in ests[:8]], gts=[(O.frame_of(o), o.uuid, O.lab_of(o)) for o in gts[:8]])
    used_e: Dict[int, int] = {}
    used_g: Dict[int, int] = {}
    pairs: List[Tuple[int, int]] = []
    for r in results:
        i = e_idx.get(id(r.estimated_object))
        if i is None:
            ctx.violation("C11/alien_object_in_results", info, tap=tap)
            return
        used_e[i] = used_e.get(i, 0) + 1
        if r.ground_truth_object is not None:
            j = g_idx.get(id(r.ground_truth_object))
            if j is None:
                ctx.violation("C11/alien_object_in_results", info, tap=tap)
                return
            used_g[j] = used_g.get(j, 0) + 1
            pairs.append((i, j))
    info["pairs"] = [(ests[i].uuid, gts[j].uuid) for i, j in pairs[:8]]
    ctx.check(all(c == 1 for c in used_e.values()) and all(c == 1 for c in used_g.values()), "C11/object_used_twice", info, tap)
    ctx.check(all(O.frame_of(ests[i]) == O.frame_of(gts[j]) for i, j in pairs), "C11/pair_across_cameras", info, tap)
    paired_e = {i for i, _ in pairs}
    paired_g = {j for _, j in pairs}
    same_uuid = [(i, j) for i, e in enumerate(ests) for j, g in enumerate(gts) if e.uuid == g.uuid and O.frame_of(e) == O.frame_of(g)]
    if not is_tlr:
        ctx.count("C11.generic_calls_judged")
        ctx.check(set(pairs) == set(same_uuid), "C11/generic_objects_not_paired_iff_same_uuid", dict(info, expected=[(ests[i].uuid, gts[j].uuid) for i, j in same_uuid[:8]]), tap)
        # what is scored is what was reported: an estimate without a partner is a result of its own (it counts against
        # precision). The integrated traffic-light camera is the library's one documented exception.
        if not any(O.frame_of(e) == "cam_traffic_light" for e in ests):
            ctx.count("C11.generic_unpaired_accounted")
            ctx.check(all(used_e.get(i, 0) == 1 for i in range(len(ests))), "C11/unpaired_estimate_not_reported", dict(info, reported={str(ests[i].uuid): c for i, c in used_e.items()}, n_estimates=len(ests)), tap)
        return
    ctx.count("C11.tlr_calls_judged")
    n_correct = sum(1 for i, j in pairs if same_label(ests[i], gts[j]))
    if uuid_first:
        best = sum(1 for i, j in same_uuid if same_label(ests[i], gts[j]))
    else:
        best = 0
        for cam in {O.frame_of(o) for o in ests}:
            for lab in {o.semantic_label.label for o in ests}:
                ne = sum(1 for o in ests if O.frame_of(o) == cam and o.semantic_label.label is lab)
                ng = sum(1 for o in gts if O.frame_of(o) == cam and o.semantic_label.label is lab)
                best += min(ne, ng)
    ctx.check(n_correct == best, "C11/label_correct_pairs_not_maximal", dict(info, label_correct=n_correct, achievable=best), tap)
    # every pair is justified by the rule: equal label (and uuid when requested) or equal uuid
    for i, j in pairs:
        ok = (same_label(ests[i], gts[j]) and (not uuid_first or ests[i].uuid == gts[j].uuid)) or ests[i].uuid == gts[j].uuid
        ctx.check(ok, "C11/pair_not_justified_by_label_or_uuid", dict(info, est=(ests[i].uuid, O.lab_of(ests[i])), gt=(gts[j].uuid, O.lab_of(gts[j]))), tap)
    # second stage complete: no same-uuid pair left apart with both members unused
    left = [(ests[i].uuid, gts[j].uuid) for i, j in same_uuid if i not in paired_e and j not in paired_g]
    ctx.check(not left, "C11/same_uuid_pair_left_unpaired", dict(info, left=left[:4]), tap)


def flat(object_results: Sequence[Any]) -> List[Any]:
    if len(object_results) == 0 or not isinstance(object_results[0], list):
        return list(object_results)
    return [r for fr in object_results for r in fr]


def label_agree(r: Any) -> bool:
    g = r.ground_truth_object
    if g is None:
        return False
    return O.is_fp_label(g) or same_label(r.estimated_object, g)


def expected_scores(n_est: int, n_gt: int, n_tp: int) -> Tuple[Any, Any, Any, Any]:
    inf = float("inf")
    acc = n_tp / (n_est + n_gt - n_tp) if (n_est + n_gt - n_tp) != 0 else inf
    prec = n_tp / n_est if n_est != 0 else inf
    rec = n_tp / n_gt if n_gt != 0 else inf
    f1 = inf if (prec == inf or rec == inf or prec + rec == 0) else 2 * prec * rec / (prec + rec)
    return acc, prec, rec, f1


def same_score(got: Any, exp: Any) -> bool:
    """Scores agree; an undefined score (zero denominator) may be reported as inf or nan."""
    got, exp = float(got), float(exp)
    if math.isinf(exp) or math.isnan(exp):
        return math.isinf(got) or math.isnan(got)
    return close(got, exp, 1e-12, 1e-12)


def judge_accuracy(ctx: Ctx, a: Any, object_results: Sequence[Any]) -> None:
    tap = "ClassificationAccuracy"
    rs = flat(object_results)
    n_tp = sum(1 for r in rs if label_agree(r))
    exp = expected_scores(len(rs), a.num_ground_truth, n_tp)
    got = (a.accuracy, a.precision, a.recall, a.f1score)
    ctx.count("ClassificationAccuracy.judged")
    info = dict(n_est=len(rs), n_gt=a.num_ground_truth, n_tp=n_tp, got=got, expected=exp, label=[str(x) for x in a.target_labels])
    ctx.check(a.num_tp == n_tp and a.num_fp == len(rs) - n_tp and a.objects_results_num == len(rs), "C11/tp_fp_counts_not_label_agreement_counts", dict(info, num_tp=a.num_tp, num_fp=a.num_fp), tap)
    ctx.check(all(same_score(x, y) for x, y in zip(got, exp)), "C11/score_differs_from_counting_definition", info, tap)
    if n_tp <= a.num_ground_truth:  # what unique pairing guarantees
        for name, v in zip(("accuracy", "precision", "recall", "f1"), got):
            if not (math.isinf(v) or math.isnan(v)):
                ctx.check(-1e-12 <= v <= 1 + 1e-12, "C11/score_outside_unit_interval", dict(info, which=name), tap)
    if len(rs) > 0 and n_tp == len(rs) == a.num_ground_truth:
        ctx.count("C11.perfect_cases")
        ctx.check(all(close(float(v), 1.0, 1e-12, 0) for v in got), "C11/perfect_classification_not_all_ones", info, tap)


def judge_summary(ctx: Ctx, s: Any, out: Tuple) -> None:
    n_est = sum(a.objects_results_num for a in s.accuracies)
    n_gt = sum(a.num_ground_truth for a in s.accuracies)
    n_tp = sum(a.num_tp for a in s.accuracies)
    exp = expected_scores(n_est, n_gt, n_tp)
    ctx.count("C11.summaries_judged")
    ctx.check(all(same_score(x, y) for x, y in zip(out, exp)), "C11/summary_differs_from_counting_definition", dict(n_est=n_est, n_gt=n_gt, n_tp=n_tp, got=out, expected=exp), "ClassificationMetricsScore")
    if n_est > 0 and n_tp == n_est == n_gt:
        ctx.count("C11.perfect_cases")
        ctx.check(all(close(float(v), 1.0, 1e-12, 0) for v in out), "C11/perfect_classification_not_all_ones", dict(got=out), "ClassificationMetricsScore")


# ---------------------------------------------------------------------------------------
def side_sets(max_n: int, cams, labels) -> List[List[Tuple[Any, str, str]]]:
    slots = [(c, u) for c in cams for u in ("u1", "u2", "u3")]
    out: List[List[Tuple[Any, str, str]]] = [[]]
    for k in range(1, max_n + 1):
        for comb in itertools.combinations(slots, k):
            for labs in itertools.product(labels, repeat=k):
                out.append([(c, u, l) for (c, u), l in zip(comb, labs)])
    return out


ALIAS = {"green": "crosswalk_green", "red": "crosswalk_red", "unknown": "crosswalk_unknown", "red_right_diagonal": "red_rightdiagonal", "red_left_diagonal": "red_leftdiagonal"}


def build(spec: List[Tuple[Any, str, str]], family: str, est: bool, alias: bool = False) -> List[Any]:
    """alias=True: the estimates carry another registered spelling of their label's name (an alias or the upper-case
    name) than the ground truth; the converted label - which is what pairing and scoring are about - is the same."""
    raw = (lambda lab: ALIAS.get(lab, lab.upper())) if (alias and est) else (lambda lab: None)  # noqa: E731
    # perception output is stamped with its own clock: a few microseconds to tens of milliseconds off the annotated frame
    # (the evaluator looks ground truth up with a 75 ms tolerance); pairing is by camera, id and label only
    from ..core import stable_int

    dt = EST_STAMP_OFFSETS_US[stable_int("stamp", [(str(c), u, lab) for c, u, lab in spec], alias) % len(EST_STAMP_OFFSETS_US)] if est else 0
    return [O.obj2d(None, lab, family=family, score=0.9 if est else 1.0, uuid=u, frame=c, raw_name=raw(lab), t=1_600_000_000_000_000 + dt) for c, u, lab in spec]


EST_STAMP_OFFSETS_US = [0, 0, 1, 10_000, -30_000, 200, 50_000, 0, 74_000]


def score_all(ctx: Ctx, results: List[Any], gts: List[Any], family: str, labels: List[str]) -> None:
    enum = TrafficLightLabel if family == "traffic_light" else AutowareLabel
    for k in range(1, len(labels) + 1):
        for sub in itertools.combinations(labels, k):
            tl = [enum(x) for x in sub]
            rd = of_mod.divide_objects(results, tl)
            nd = of_mod.divide_objects_to_num(gts, tl)
            s = cms_mod.ClassificationMetricsScore({l: [rd[l]] for l in tl}, {l: nd[l] for l in tl}, tl)
            s._summarize()


def run(ctx: Ctx) -> None:
    import perception_eval.manager.perception_evaluation_manager as mgr_mod

    max_n = 2 if ctx.quick else 3
    with Taps(ctx) as taps:
        install(taps, ctx)
        idx = 0
        for family, cams, labels, task in (("traffic_light", CAMS, TL_LABELS, EvaluationTask.CLASSIFICATION2D), ("autoware", CAMS_GENERIC, AW_LABELS, EvaluationTask.CLASSIFICATION2D)):
            sets = side_sets(max_n, cams, labels)
            for ei, es in enumerate(sets):
                if not ctx.mine(ei):
                    continue
                ests_plain, ests_alias = build(es, family, True), build(es, family, True, alias=True)
                for gi, gs in enumerate(sets):
                    gts = build(gs, family, False)
                    ests = ests_alias if (ei + gi) % 2 == 1 else ests_plain
                    for uf in ((False, True) if family == "traffic_light" else (False,)):
                        idx += 1
                        ctx.begin_case("exhaustive", ei * len(sets) + gi, family=family, ests=[(str(c), u, l) for c, u, l in es], gts=[(str(c), u, l) for c, u, l in gs], uuid_first=uf)
                        try:
                            res = _lib_or().get_object_results(task, ests, gts, uuid_matching_first=uf)
                        except Exception as e:
                            ctx.violation(f"C11/pairing_raised:{type(e).__name__}", dict(family=family, ests=es, gts=gs, error=str(e)[:150]), tap="get_object_results")
                            continue
                        nsu = sum(1 for a in es for b in gs if a[0] == b[0] and a[1] == b[1])
                        nsl = sum(1 for a in es for b in gs if a[0] == b[0] and a[2] == b[2])
                        if (ei + gi) % 7 == 0:
                            score_all(ctx, res, gts, family, labels)
                        shared = bool({a[0] for a in es} & {b[0] for b in gs})
                        ctx.case((family, uf, len(es), len(gs), min(nsu, 2), min(nsl, 2)), nontrivial=bool(es) and bool(gs) and shared, sample=dict(family=family, uuid_first=uf, ests=[(str(c), u, l) for c, u, l in es], gts=[(str(c), u, l) for c, u, l in gs], pairs=[(r.estimated_object.uuid, None if r.ground_truth_object is None else r.ground_truth_object.uuid) for r in res]) if idx in (5000, 20000) else None)
            ctx.exhaustive[f"{family}_sets_le{max_n}_per_side"] = True

        for i in ctx.indices("random", 200 if ctx.quick else 20000):
            r = ctx.rng("random", i)
            family = r.choice(["traffic_light", "autoware"])
            cams = (CAMS + [FrameID.CAM_TRAFFIC_LIGHT]) if family == "traffic_light" else CAMS_GENERIC + [FrameID.CAM_FRONT_LEFT, FrameID.CAM_TRAFFIC_LIGHT_NEAR, FrameID.CAM_TRAFFIC_LIGHT_FAR]
            labels = (["green", "red", "yellow", "red_left", "unknown"] if family == "traffic_light" else ["car", "bus", "pedestrian", "unknown"])
            n = r.randint(1, 40)
            uu = [f"id{k}" for k in range(n)]
            gts_spec = [(r.choice(cams), u, r.choice(labels)) for u in r.sample(uu, r.randint(0, n))]
            ests_spec = [(c if r.random() < 0.85 else r.choice(cams), u, l if r.random() < 0.6 else r.choice(labels)) for c, u, l in gts_spec if r.random() < 0.8]
            ests_spec += [(r.choice(cams), f"x{k}", r.choice(labels)) for k in range(r.randint(0, 4))]
            # uniqueness of (camera, uuid) per side
            ests_spec = list({(c, u): (c, u, l) for c, u, l in ests_spec}.values())
            r.shuffle(ests_spec)
            r.shuffle(gts_spec)
            ests, gts = build(ests_spec, family, True, alias=r.random() < 0.5), build(gts_spec, family, False)
            uf = r.random() < 0.5
            ctx.begin_case("random", i, family=family, n_est=len(ests), n_gt=len(gts), uuid_first=uf)
            with ctx.case_guard("random"):
                # (the label policy governs geometric matching; a classification answer is right iff the labels are equal)
                from perception_eval.evaluation.matching import MatchingLabelPolicy

                res = _lib_or().get_object_results(EvaluationTask.CLASSIFICATION2D, ests, gts, uuid_matching_first=uf, matching_label_policy=r.choice(list(MatchingLabelPolicy)))
                score_all(ctx, res, gts, family, labels[:3])
                ctx.case((family, uf, "rnd", min(len(ests), 5), min(len(gts), 5)), nontrivial=bool(ests) and bool(gts))

        # ---- several frames gathered per label (nested layout) and scored more than once
        for i in ctx.indices("multi_frame", 60 if ctx.quick else 4000):
            r = ctx.rng("multi_frame", i)
            family = r.choice(["traffic_light", "autoware"])
            cams = CAMS if family == "traffic_light" else CAMS_GENERIC
            labels = TL_LABELS if family == "traffic_light" else AW_LABELS
            enum = TrafficLightLabel if family == "traffic_light" else AutowareLabel
            tl = [enum(x) for x in labels]
            n_frames = r.randint(2, 5)
            gathered = {l: [] for l in tl}
            n_gt = {l: 0 for l in tl}
            ctx.begin_case("multi_frame", i, family=family, n_frames=n_frames)
            with ctx.case_guard("multi_frame"):
                for f in range(n_frames):
                    n = r.randint(0, 6)
                    gts_spec = [(r.choice(cams), f"id{k}", r.choice(labels)) for k in range(n)]
                    ests_spec = [(c, u, l if r.random() < 0.6 else r.choice(labels)) for c, u, l in gts_spec if r.random() < 0.85]
                    ests, gts = build(ests_spec, family, True), build(gts_spec, family, False)
                    res = _lib_or().get_object_results(EvaluationTask.CLASSIFICATION2D, ests, gts, uuid_matching_first=r.random() < 0.5)
                    rd = of_mod.divide_objects(res, tl)
                    nd = of_mod.divide_objects_to_num(gts, tl)
                    for l in tl:
                        gathered[l].append(rd[l])
                        n_gt[l] += nd[l]
                truth = {l: [list(fr) for fr in frames] for l, frames in gathered.items()}
                first = None
                for rep in range(3):
                    s_ = cms_mod.ClassificationMetricsScore(gathered, n_gt, tl)
                    out = s_._summarize()
                    exp_n = sum(len(fr) for frames in truth.values() for fr in frames)
                    got_n = sum(a.objects_results_num for a in s_.accuracies)
                    ctx.count("C11.repeated_scorings")
                    ctx.check(got_n == exp_n and all([list(fr) for fr in gathered[l]] == truth[l] for l in tl), "C11/scoring_changes_the_gathered_results", dict(family=family, repetition=rep, scored=got_n, gathered=exp_n), "ClassificationAccuracy")
                    if first is None:
                        first = out
                    else:
                        ctx.check(all(same_score(a, b) for a, b in zip(out, first)), "C11/score_of_same_results_changes_between_scorings", dict(family=family, repetition=rep, first=first, again=out), "ClassificationMetricsScore")
                ctx.case((family, "multi_frame", n_frames), nontrivial=True)

        # ---- classification2d frames through the real frame evaluation
        from perception_eval.common.dataset import FrameGroundTruth
        from perception_eval.config import PerceptionEvaluationConfig
        from perception_eval.evaluation.result.perception_frame_config import CriticalObjectFilterConfig, PerceptionPassFailConfig
        from perception_eval.evaluation.result.perception_frame_result import PerceptionFrameResult

        from ..frames import scratch_dir

        for i in ctx.indices("frames", 40 if ctx.quick else 3000):
            r = ctx.rng("frames", i)
            labels = ["green", "red", "yellow", "unknown"]
            target = r.sample(labels, r.randint(1, 4))
            uf = r.random() < 0.5
            cfg = PerceptionEvaluationConfig(dataset_paths=[], frame_id=["cam_traffic_light_near", "cam_traffic_light_far"], result_root_directory=scratch_dir(), evaluation_config_dict={"evaluation_task": "classification2d", "target_labels": target, "label_prefix": "traffic_light", "uuid_matching_first": uf})
            n = r.randint(1, 8)
            gts_spec = [(r.choice(CAMS), f"id{k}", r.choice(labels)) for k in range(n)]
            ests_spec = [(c, u, l if r.random() < 0.6 else r.choice(labels)) for c, u, l in gts_spec if r.random() < 0.85]
            ests, gts = build(ests_spec, "traffic_light", True, alias=r.random() < 0.5), build(gts_spec, "traffic_light", False)
            ctx.begin_case("frames", i, target=target, n=n)
            with ctx.case_guard("frames"):
                ests_f = _lib_of().filter_objects(ests, False, target_labels=cfg.target_labels)
                gts_f = _lib_of().filter_objects(gts, True, target_labels=cfg.target_labels)
                res = _lib_or().get_object_results(cfg.evaluation_task, ests_f, gts_f, target_labels=cfg.target_labels, uuid_matching_first=uf)
                crit = CriticalObjectFilterConfig(evaluator_config=cfg, target_labels=target)
                pf = PerceptionPassFailConfig(evaluator_config=cfg, target_labels=target)
                fr = PerceptionFrameResult(res, FrameGroundTruth(100, "0", gts_f), cfg.metrics_config, crit, pf, 100, cfg.target_labels)
                fr.evaluate_frame()
                for s in fr.metrics_score.classification_scores:
                    s._summarize()
                ctx.count("C11.frames")
                ctx.case(("frame", len(target), uf), nontrivial=True)
        ctx.notes["taps"] = taps.installed
