"""C01 - matching is one-to-one and accounts for every estimate."""
from __future__ import annotations

from ..core import Ctx, Taps
from .. import matching

LEVEL_TEXT = 'Held on every monitored execution of the real matcher: identity-based exactly-once / one-to-one / same-frame / within-radius / untouched-input oracles evaluated on each call of get_object_results made by thousands of generated hostile object sets and by scenario frames through the real manager. Sampling of an unbounded input space, not a proof.'
LEVEL_NOTE = "Trusts the oracle's own geometry (shapely-free) for the radius clause; inputs in the documented domain (positive sizes, finite numbers)."
TECHNIQUE = "runtime monitoring: tap on get_object_results + reference matcher model (identity accounting, blocking-pair predicate, reference greedy)"
RULE = (
    "direct hostile calls of the real get_object_results (through the manager's binding) with generated 3D/2D object sets "
    "(0..24 x 0..24, all policies/modes, radius none/per-label/tiny/huge, ego/map/mixed frames, FP-validation, coincident "
    "objects) plus scenario frames through the real manager; a case is non-trivial when both lists are non-empty; distinct = "
    "distinct abstract signatures (2d?, mode, policy, radius kind, fp-validation, frame kind, min(n_est,3), min(n_gt,3), paired?, unpaired?)"
)
ASSUMPTIONS = [
    "box sizes positive, finite coordinates, yaw-only rotations",
    "2D centre distance is judged against the documented integer ROI centre (offset + size // 2)",
    "a radius decision within 1e-6 of its boundary is not asserted (counted as skipped_boundary)",
]
DECIDING = ["C01.checked", "get_object_results.checked", "matching.empty_corner_cases", "matching.fpv_empty_gt_cases"]
JOBS = {"quick": 4, "thorough": 14}


def run(ctx: Ctx) -> None:
    from ..scenario import run_manager_scenarios

    with Taps(ctx) as taps:
        matching.install_matching_tap(taps, ctx, clauses=("C01",))
        matching.run_direct_matching(ctx, "direct", 1600 if ctx.quick else 60000)
        run_manager_scenarios(ctx, "scenario", 16 if ctx.quick else 800)
        ctx.notes["taps"] = taps.installed
