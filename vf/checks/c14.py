"""C14 - label names convert totally, case-insensitively and consistently with merging."""
from __future__ import annotations

import itertools
import random
from typing import Any, Dict, List, Optional

from perception_eval.common import label as label_mod
from perception_eval.common.evaluation_task import EvaluationTask
from perception_eval.common.label import AutowareLabel, LabelConverter, TrafficLightLabel, set_target_lists

from ..core import Ctx, Taps, guarded

LEVEL_TEXT = (
    "Held on every conversion executed under the monitor: LabelConverter.convert_label / convert_name and set_target_lists are "
    "tapped and every call is judged against a reference built from the statement (case folding, unknown fallback, canonical "
    "names of producible labels, merged image = merge(unmerged image), documented Autoware table, entry points agree). The "
    "space is finite for registered names and is enumerated completely: every registered name of both families x merge on/off "
    "x every evaluation task x case variants; unregistered strings are sampled (near-misses, empty, unicode)."
)
LEVEL_NOTE = "Documented labels are taken from docs/en/perception/label.md on the intersection of documented and registered names (the docs are stale for names the code does not register)."
TECHNIQUE = "runtime monitoring: taps on LabelConverter.convert_label/convert_name/set_target_lists + reference mapping; exhaustive enumeration of registered names x tasks x merge x case variants"
RULE = (
    "exhaustive: all registered names (from the converter's own table) and all enum member values of both families x merge "
    "on/off x 9 evaluation tasks x {lower, UPPER, Title, swapcase, 4 (quick) / 8 (thorough) random case patterns}; 400 (quick) / "
    "2000 (thorough) unregistered strings per converter class; target lists through set_target_lists and through a real "
    "PerceptionEvaluationConfig; non-trivial = registered name in a non-canonical case or under merging; distinct = (family, "
    "task class, merge, name, variant kind)"
    " Later additions: attribute lists that hold registered label names; frame-level target lists; documented traffic-light tables; string-task twin converters."
)
ASSUMPTIONS = ["names are str", "the merge rule is truck,bus -> car and motorbike -> bicycle (statement)"]
DECIDING = ["convert_label.checked", "convert_name.checked", "set_target_lists.checked", "C14.registered_names_enumerated", "C14.unregistered_checked", "C14.merge_checked", "C14.config_targets_checked", "C14.task_spelling_checked", "C14.frame_config_targets_checked"]
JOBS = {"quick": 2, "thorough": 8}

DOC_AUTOWARE = {
    "car": ["car", "vehicle.car", "vehicle.construction", "vehicle.emergency (ambulance & police)", "vehicle.police", "vehicle.fire", "vehicle.ambulance"],
    "truck": ["truck", "vehicle.truck", "trailer", "vehicle.trailer"],
    "bus": ["bus", "vehicle.bus", "vehicle.bus (bendy & rigid)"],
    "bicycle": ["bicycle", "vehicle.bicycle"],
    "motorbike": ["motorbike", "motorcycle", "vehicle.motorcycle"],
    "pedestrian": ["pedestrian", "stroller", "pedestrian.adult", "pedestrian.child", "pedestrian.construction_worker", "pedestrian.personal_mobility", "pedestrian.police_officer", "pedestrian.stroller", "pedestrian.wheelchair"],
    "unknown": ["unknown", "animal", "movable_object.barrier", "movable_object.debris", "movable_object.pushable_pullable", "movable_object.trafficcone", "movable_object.traffic_cone", "static_object.bicycle rack", "static_object.bollard", "static_object.forklift"],
}
DOC_NAME2LABEL = {n: lab for lab, names in DOC_AUTOWARE.items() for n in names}
# docs/en/perception/label.md, TrafficLightLabel: one table for DETECTION2D / TRACKING2D, one for CLASSIFICATION2D
# (no table is documented for the other tasks, nothing is claimed for them beyond self-consistency)
DOC_TLR_STATES = ["green", "red", "yellow", "red_straight", "red_left", "red_left_straight", "red_right", "red_right_straight", "red_right_diagonal", "yellow_right"]
DOC_TLR = {
    "detection2d": {**{n: "traffic_light" for n in ["traffic_light"] + DOC_TLR_STATES}, "unknown": "unknown"},
    "tracking2d": {**{n: "traffic_light" for n in ["traffic_light"] + DOC_TLR_STATES}, "unknown": "unknown"},
    "classification2d": {**{n: n for n in DOC_TLR_STATES}, "unknown": "unknown"},
}
MERGE = {"truck": "car", "bus": "car", "motorbike": "bicycle"}


def merged(label: Any) -> Any:
    if isinstance(label, AutowareLabel) and label.value in MERGE:
        return AutowareLabel(MERGE[label.value])
    return label


def variants(name: str, r: random.Random, n_random: int) -> Dict[str, str]:
    out = {"lower": name.lower(), "upper": name.upper(), "title": name.title(), "swap": name.swapcase()}
    for i in range(n_random):
        out[f"rnd{i}"] = "".join(c.upper() if r.random() < 0.5 else c.lower() for c in name)
    return out


class Ref:
    """Reference view of one converter, derived from the statement + the converter's own registration table."""

    def __init__(self, conv: LabelConverter, family: str, merge: bool, unmerged: Optional[LabelConverter]):
        self.conv, self.family, self.merge, self.unmerged = conv, family, merge, unmerged
        self.unknown = conv.label_type.UNKNOWN
        self.registered: Dict[str, Any] = {}
        for info in conv.label_infos:
            self.registered.setdefault(info.name, info.label)
        self.image = set(self.registered.values())


def install(taps: Taps, ctx: Ctx, refs: Dict[int, Ref]) -> None:
    def cl_factory(orig):
        def convert_label(self, name, *a, **k):
            try:
                out = orig(self, name, *a, **k)
            except Exception as e:
                ctx.count("convert_label.checked")
                ctx.violation(f"C14/conversion_raised:{type(e).__name__}", dict(name=name, error=str(e)[:200]), tap="convert_label")
                raise
            ref = refs.get(id(self))
            if ref is not None and isinstance(name, str):
                guarded(ctx, "convert_label", lambda: judge(ctx, ref, name, out.label, "convert_label"))
                ctx.check(out.name == name, "C14/label_object_does_not_keep_original_name", dict(name=name, kept=out.name), "convert_label")
            return out

        return convert_label

    taps.method(LabelConverter, "convert_label", cl_factory, tapname="convert_label")

    def cn_factory(orig):
        def convert_name(self, name):
            try:
                out = orig(self, name)
            except Exception as e:
                ctx.count("convert_name.checked")
                ctx.violation(f"C14/conversion_raised:{type(e).__name__}", dict(name=name, error=str(e)[:200]), tap="convert_name")
                raise
            ref = refs.get(id(self))
            if ref is not None and isinstance(name, str):
                guarded(ctx, "convert_name", lambda: judge(ctx, ref, name, out, "convert_name"))
            return out

        return convert_name

    taps.method(LabelConverter, "convert_name", cn_factory, tapname="convert_name")


def judge(ctx: Ctx, ref: Ref, name: str, got: Any, tap: str) -> None:
    low = name.lower()
    info = dict(family=ref.family, merge=ref.merge, task=str(ref.conv.evaluation_task), name=name, got=str(got))
    ctx.check(isinstance(got, ref.conv.label_type), "C14/label_of_wrong_family", info, tap)
    if ref.family == "traffic_light":
        doc_t = DOC_TLR.get(str(ref.conv.evaluation_task.value), {}).get(low)
        if doc_t is not None:
            ctx.count("C14.documented_traffic_light_names_checked")
            ctx.check(got is TrafficLightLabel(doc_t), "C14/registered_name_not_documented_label", dict(info, documented=doc_t), tap)
    if low in ref.registered:
        exp = ref.registered[low]
        # case variant maps like the lower-case spelling (the converter's own table gives the lower-case image)
        ctx.check(got is exp, "C14/case_variant_maps_differently", dict(info, expected=str(exp)), tap)
        # documented table (Autoware), on the intersection of documented and registered names
        if ref.family == "autoware" and low in DOC_NAME2LABEL:
            doc = AutowareLabel(DOC_NAME2LABEL[low])
            doc = merged(doc) if ref.merge else doc
            ctx.check(got is doc, "C14/registered_name_not_documented_label", dict(info, documented=str(doc)), tap)

    else:
        ctx.check(got is ref.unknown, "C14/unregistered_name_not_unknown", info, tap)


def build_converters() -> List[Ref]:
    refs: List[Ref] = []
    for task in EvaluationTask:
        for family in ("autoware", "traffic_light"):
            un = LabelConverter(task, False, family, count_label_number=False)
            r0 = Ref(un, family, False, None)
            refs.append(r0)
            me = LabelConverter(task, True, family, count_label_number=True)
            refs.append(Ref(me, family, True, un))
    return refs


def run(ctx: Ctx) -> None:
    refs = build_converters()
    by_id = {id(r.conv): r for r in refs}
    n_rnd = 4 if ctx.quick else 48
    n_unreg = 400 if ctx.quick else 20000
    with Taps(ctx) as taps:
        install(taps, ctx, by_id)
        for ci, ref in enumerate(refs):
            if not ctx.mine(ci):
                continue
            conv = ref.conv
            twin = LabelConverter(str(conv.evaluation_task.value), ref.merge, ref.family, count_label_number=False)
            r = ctx.rng("names", ci)
            members = [m.value for m in conv.label_type]
            names = sorted(set(ref.registered) | set(members))
            for name in names:
                ctx.begin_case("names", ci, family=ref.family, merge=ref.merge, task=str(conv.evaluation_task), name=name)
                ctx.count("C14.registered_names_enumerated")
                base = conv.convert_label(name).label
                for vi, (vk, v) in enumerate(variants(name, r, n_rnd).items()):
                    # the label is a function of the name; the attribute list is carried along, whatever it holds - also
                    # strings that are themselves registered names ("car", "unknown", ...)
                    other = names[(names.index(name) + 1 + vi) % len(names)]
                    attrs = [["attr"], [], ["vehicle.moving", other], [other], ["unknown"], [members[vi % len(members)], "x"]][vi % 6]
                    lab = conv.convert_label(v, attrs)
                    ctx.count("C14.attribute_lists_with_registered_names", int(any(a_ in ref.registered or a_ in members for a_ in attrs)))
                    ctx.check(lab.label is base, "C14/case_variant_maps_differently", dict(name=name, variant=v, got=str(lab.label), expected=str(base)), "convert_label")
                    ctx.check(conv.convert_name(v) is lab.label, "C14/convert_name_differs_from_convert_label", dict(name=v), "convert_name")
                    ctx.case((ref.family, conv.evaluation_task == EvaluationTask.CLASSIFICATION2D, ref.merge, name, vk), nontrivial=(v != name.lower()) or ref.merge, sample=dict(family=ref.family, task=str(conv.evaluation_task), merge=ref.merge, name=v, label=str(lab.label)) if (ci, name, vk) in ((0, "car", "upper"), (3, "green", "title")) else None)
                # a converter built with the task given as its string value converts alike (both entry points)
                ctx.count("C14.task_spelling_checked")
                t_lab, t_name = twin.convert_label(name).label, twin.convert_name(name.upper())
                ctx.check(t_lab is base and t_name is base, "C14/converter_built_with_task_string_converts_differently", dict(family=ref.family, merge=ref.merge, task=str(conv.evaluation_task), name=name, enum_task=str(base), string_task=[str(t_lab), str(t_name)]), "convert_label")
                # merged image == merge(unmerged image)
                if ref.unmerged is not None:
                    ctx.count("C14.merge_checked")
                    u = ref.unmerged.convert_label(name).label
                    ctx.check(base is merged(u), "C14/merged_result_not_merge_of_unmerged", dict(family=ref.family, name=name, unmerged=str(u), merged=str(base)), "convert_label")
            # every producible label is the image of its own canonical name
            for lab in sorted(ref.image, key=lambda x: x.value):
                got = conv.convert_label(lab.value).label
                ctx.check(got is lab, "C14/producible_label_not_image_of_canonical_name", dict(family=ref.family, merge=ref.merge, task=str(conv.evaluation_task), label=str(lab), canonical_name=lab.value, got=str(got)), "convert_label")
            # unregistered strings
            pool = names
            for k in range(n_unreg):
                base_name = r.choice(pool)
                kind = r.choice(["space", "trunc", "dot", "empty", "unicode", "random", "prefix", "markup"])
                if kind == "markup":
                    # characters that mean something to string formatting / templating / regular expressions
                    s = r.choice(["{@}", "vehicle.{@}", "@{", "}@", "{}", "{0}", "%s", "%(name)s", "@%d", "$@", "\\@", "@*", "(@", "[@", "@\n", "{"]).replace("@", base_name)
                elif kind == "space":
                    s = base_name + " "
                elif kind == "trunc":
                    s = base_name[:-1]
                elif kind == "dot":
                    s = base_name.replace(".", "_") if "." in base_name else base_name + "."
                elif kind == "empty":
                    s = r.choice(["", " ", "\t"])
                elif kind == "unicode":
                    s = r.choice(["çar", "カー", "caŕ", "İ", "ß", "ſ", "ǅ"]) + r.choice(["", base_name])
                elif kind == "prefix":
                    s = r.choice(["vehicle.", "x", "human."]) + base_name
                else:
                    s = "".join(r.choice("abcdefghijklmnopqrstuvwxyz._ ()&") for _ in range(r.randint(1, 20)))
                if s.lower() in ref.registered:
                    continue
                ctx.begin_case("unregistered", ci * 100000 + k, name=s)
                ctx.count("C14.unregistered_checked")
                try:
                    conv.convert_label(s)
                    conv.convert_name(s)
                except Exception:
                    pass  # already recorded by the tap
                ctx.case((ref.family, "unregistered", kind), nontrivial=False)
            # target lists
            for k in range(20 if ctx.quick else 100):
                names_k = [r.choice(names + ["nonsense"]) for _ in range(r.randint(1, 6))]
                names_k = [n if r.random() < 0.5 else n.upper() for n in names_k]
                got = set_target_lists(names_k, conv)
                exp = [conv.convert_label(n).label for n in names_k]
                ctx.count("set_target_lists.checked")
                ctx.check(len(got) == len(exp) and all(a is b for a, b in zip(got, exp)), "C14/target_list_resolved_differently_from_object_labels", dict(names=names_k, got=[str(x) for x in got], expected=[str(x) for x in exp]), "set_target_lists")
            for empty in (None, []):
                got = set_target_lists(empty, conv)
                ctx.check(got == list(conv.label_type), "C14/empty_target_list_not_all_labels", dict(got=[str(x) for x in got]), "set_target_lists")

        # ---- through a real evaluation configuration ----
        from perception_eval.config import PerceptionEvaluationConfig

        from ..frames import scratch_dir

        for idx in ctx.indices("config_targets", 30 if ctx.quick else 400):
            r = ctx.rng("config_targets", idx)
            merge = r.random() < 0.5
            pool = ["car", "truck", "bus", "bicycle", "motorbike", "pedestrian", "unknown", "vehicle.bus", "motorcycle", "trailer", "animal"]
            names = [n if r.random() < 0.5 else n.upper() for n in r.sample(pool, r.randint(1, 6))]
            ctx.begin_case("config_targets", idx, names=names, merge=merge)
            cfg = PerceptionEvaluationConfig(
                dataset_paths=[],
                frame_id="base_link",
                result_root_directory=scratch_dir(),
                evaluation_config_dict={"evaluation_task": "detection", "target_labels": names, "label_prefix": "autoware", "merge_similar_labels": merge, "max_x_position": 100.0, "max_y_position": 100.0, "min_point_numbers": 0, "center_distance_thresholds": [1.0]},
            )
            exp = [cfg.label_converter.convert_label(n).label for n in names]
            ctx.count("C14.config_targets_checked")
            ctx.check(all(a is b for a, b in zip(cfg.target_labels, exp)) and len(exp) == len(cfg.target_labels), "C14/config_target_labels_differ_from_object_labels", dict(names=names, got=[str(x) for x in cfg.target_labels], expected=[str(x) for x in exp]), "set_target_lists")
            exp_m = [merged(AutowareLabel(DOC_NAME2LABEL[n.lower()])) if merge else AutowareLabel(DOC_NAME2LABEL[n.lower()]) for n in names]
            ctx.check(all(a is b for a, b in zip(cfg.target_labels, exp_m)), "C14/registered_name_not_documented_label", dict(names=names, got=[str(x) for x in cfg.target_labels], expected=[str(x) for x in exp_m]), "set_target_lists")
            # the per-frame configurations resolve their own target lists with the evaluator's mapping too
            from perception_eval.evaluation.result.perception_frame_config import CriticalObjectFilterConfig, PerceptionPassFailConfig

            names_f = [n if r.random() < 0.5 else n.upper() for n in r.sample(pool, r.randint(1, 5))]
            exp_f = [cfg.label_converter.convert_label(n).label for n in names_f]
            crit = CriticalObjectFilterConfig(evaluator_config=cfg, target_labels=names_f, max_x_position_list=[50.0] * len(names_f), max_y_position_list=[50.0] * len(names_f))
            pf = PerceptionPassFailConfig(evaluator_config=cfg, target_labels=names_f, matching_threshold_list=[2.0] * len(names_f))
            for who, got_f in (("CriticalObjectFilterConfig", crit.target_labels), ("PerceptionPassFailConfig", pf.target_labels)):
                ctx.count("C14.frame_config_targets_checked")
                ctx.check(len(got_f) == len(exp_f) and all(a is b for a, b in zip(got_f, exp_f)), "C14/config_target_labels_differ_from_object_labels", dict(config=who, merge=merge, names=names_f, got=[str(x) for x in got_f], expected=[str(x) for x in exp_f]), "set_target_lists")
            ctx.case(("config", merge, len(names)), nontrivial=True)
        # ---- the sensing configuration builds its converter from the same options: merging requested = merging done
        from perception_eval.config import SensingEvaluationConfig

        for merge in (False, True):
            ctx.begin_case("sensing_config", int(merge), merge=merge)
            with ctx.case_guard("sensing_config"):
                scfg = SensingEvaluationConfig(dataset_paths=[], frame_id="base_link", result_root_directory=scratch_dir(), evaluation_config_dict={"evaluation_task": "sensing", "label_prefix": "autoware", "merge_similar_labels": merge, "box_scale_0m": 1.0, "box_scale_100m": 1.0, "min_points_threshold": 1})
                for n, lab_value in sorted(DOC_NAME2LABEL.items()):
                    for spelled in (n, n.upper()):
                        want = merged(AutowareLabel(lab_value)) if merge else AutowareLabel(lab_value)
                        got = scfg.label_converter.convert_label(spelled).label
                        got_n = scfg.label_converter.convert_name(spelled)
                        ctx.count("C14.sensing_config_names_checked")
                        ctx.check(got is want and got_n is want, "C14/registered_name_not_documented_label", dict(config="SensingEvaluationConfig", merge=merge, name=spelled, got=[str(got), str(got_n)], expected=str(want)), "convert_label")
                ctx.case(("sensing_config", merge), nontrivial=True)
        ctx.exhaustive["registered_names_x_tasks_x_merge_x_case_variants"] = not ctx.inconclusive
        ctx.notes["taps"] = taps.installed
