"""Digests of manager runs and the two-execution comparator (C07, C13)."""
from __future__ import annotations

import math
from typing import Any, Dict, List, Optional, Tuple

import numpy as np

from .gen import objects as O
from .oracles import geometry as G


def num(x: Any) -> Any:
    if x is None:
        return None
    x = float(x)
    if math.isinf(x):
        return "inf"
    return x


def metrics_digest(ms: Any) -> Dict[str, Any]:
    out: Dict[str, Any] = {"num_gt": ms.num_ground_truth, "maps": [], "tracking": [], "classification": []}
    for m in ms.maps:
        out["maps"].append(dict(mode=str(m.matching_mode), thr=[float(t) for t in m.matching_threshold_list], map=num(m.map), maph=num(m.maph), aps=[num(a.ap) for a in m.aps], aphs=[num(a.ap) for a in m.aphs], n=[a.objects_results_num for a in m.aps], ngt=[a.num_ground_truth for a in m.aps]))
    for t in ms.tracking_scores:
        out["tracking"].append(dict(mode=str(t.matching_mode), clears=[dict(mota=num(c.mota), motp=num(c.motp), id_switch=c.id_switch, tp=num(c.tp), fp=num(c.fp), ngt=c.num_ground_truth) for c in t.clears]))
    return out


def frame_digest(res: Any) -> Dict[str, Any]:
    pf = res.pass_fail_result
    d: Dict[str, Any] = {}
    d["results"] = {
        r.estimated_object.uuid: (
            None if r.ground_truth_object is None else r.ground_truth_object.uuid,
            num(r.center_distance.value) if r.center_distance is not None else None,
            num(r.plane_distance.value) if r.plane_distance is not None else None,
            num(r.iou_2d.value) if r.iou_2d is not None else None,
            num(r.iou_3d.value) if r.iou_3d is not None else None,
        )
        for r in res.object_results
    }
    d["critical_gt"] = sorted(g.uuid for g in res.frame_ground_truth.objects)
    d["tp"] = sorted((r.estimated_object.uuid, r.ground_truth_object.uuid) for r in pf.tp_object_results)
    d["fp"] = sorted((r.estimated_object.uuid, None if r.ground_truth_object is None else r.ground_truth_object.uuid) for r in pf.fp_object_results)
    d["fn"] = sorted(g.uuid for g in pf.fn_objects)
    d["tn"] = sorted(g.uuid for g in pf.tn_objects)
    d["metrics"] = metrics_digest(res.metrics_score)
    d["ranges"] = range_quantities(res)
    return d


def range_quantities(res: Any) -> Dict[str, Any]:
    """The quantities the library's range filter compares with its bounds (|x|, |y| and planar distance relative to the
    ego), obtained through the library's own transform registry of the frame, for every surviving estimate and ground truth.
    Two renderings of one scene that disagree on one of them by more than the tolerance disagree on the decision for any
    bound placed in the gap, so comparing them is the range-filter clause observed without having to hit the gap."""
    from perception_eval.common.schema import FrameID

    tf = res.frame_ground_truth.transforms
    out: Dict[str, Any] = {}
    objs = [("e", r.estimated_object) for r in res.object_results] + [("g", g) for g in res.frame_ground_truth.objects]
    for kind, o in objs:
        pos = getattr(o.state, "position", None)
        if pos is None:
            continue
        try:
            if o.frame_id == FrameID.BASE_LINK:
                p = pos
                dist = o.get_distance_bev()
            else:
                p = tf.transform((o.frame_id, FrameID.BASE_LINK), pos)
                dist = o.get_distance_bev(tf)
        except Exception as e:  # recorded: the comparator reports the difference
            out[f"{kind}:{o.uuid}"] = f"{type(e).__name__}"
            continue
        out[f"{kind}:{o.uuid}"] = (abs(float(p[0])), abs(float(p[1])), float(dist))
    return out


def diff(a: Any, b: Any, tol: float, path: str = "") -> Optional[str]:
    """First difference between two digests (numbers compared with tolerance)."""
    if isinstance(a, dict) and isinstance(b, dict):
        if set(a) != set(b):
            return f"{path}: keys differ {sorted(set(a) ^ set(b))[:6]}"
        for k in a:
            d = diff(a[k], b[k], tol, f"{path}/{k}")
            if d:
                return d
        return None
    if isinstance(a, (list, tuple)) and isinstance(b, (list, tuple)):
        if len(a) != len(b):
            return f"{path}: length {len(a)} != {len(b)}: {str(a)[:200]} vs {str(b)[:200]}"
        for i, (x, y) in enumerate(zip(a, b)):
            d = diff(x, y, tol, f"{path}[{i}]")
            if d:
                return d
        return None
    if isinstance(a, float) and isinstance(b, float):
        if abs(a - b) <= tol + tol * max(abs(a), abs(b)):
            return None
        return f"{path}: {a!r} != {b!r}"
    if a != b:
        return f"{path}: {a!r} != {b!r}"
    return None


# ---------------------------------------------------------------------------------------
# decision margins of a scenario (computed from the scenario description, in the ego frame)
# ---------------------------------------------------------------------------------------
def _bounds_margin(box, lists: Dict[str, Any]) -> float:
    m = float("inf")
    x, y = box[0], box[1]
    d = math.hypot(x, y)
    for key, val in (("max_x", abs(x)), ("max_y", abs(y)), ("max_d", d), ("min_d", d)):
        for b in lists.get(key, []):
            m = min(m, abs(val - b))
    return m


def _tm(maximize: bool, s: float, t: float) -> float:
    """See matching.threshold_margin: decisions against a threshold of exactly 0 that are structurally exact."""
    if t == 0.0 and (not maximize or s == 0.0):
        return float("inf")
    return abs(s - t)


def scenario_margin(scn: Any) -> float:
    """Smallest distance of any decision to its boundary over the whole scenario (conservative: every configured
    bound / threshold against every object / candidate pair, all matching modes, candidate-score ties)."""
    cfg = scn.cfg
    m = float("inf")

    def as_list(v):
        if v is None:
            return []
        if isinstance(v, (int, float)):
            return [float(v)]
        out = []
        for t in v:
            out += as_list(t)
        return out

    mgr = dict(max_x=as_list(cfg.get("max_x_position")), max_y=as_list(cfg.get("max_y_position")), max_d=as_list(cfg.get("max_distance")), min_d=as_list(cfg.get("min_distance")))
    thr_cd = as_list(cfg.get("center_distance_thresholds")) + as_list(cfg.get("max_matchable_radii"))
    thr_pd = as_list(cfg.get("plane_distance_thresholds"))
    thr_i2 = as_list(cfg.get("iou_2d_thresholds"))
    thr_i3 = as_list(cfg.get("iou_3d_thresholds"))
    conf = as_list(cfg.get("confidence_threshold"))
    for k, f in enumerate(scn.frames):
        crit = scn.critical[k]
        cl = dict(max_x=as_list(crit.get("max_x_position_list")), max_y=as_list(crit.get("max_y_position_list")), max_d=as_list(crit.get("max_distance_list")), min_d=as_list(crit.get("min_distance_list")))
        # mean bounds are used for unknown-labelled estimates
        for key in list(cl):
            if cl[key]:
                cl[key] = cl[key] + [float(np.mean(cl[key]))]
        for key in list(mgr):
            if mgr[key] and len(mgr[key]) >= 1:
                pass
        conf_all = conf + as_list(crit.get("confidence_threshold_list"))
        pf_thr = as_list(scn.passfail[k].get("matching_threshold_list"))
        for o in f.gts + f.ests:
            m = min(m, _bounds_margin(o["box"], mgr), _bounds_margin(o["box"], cl))
        for e in f.ests:
            for c in conf_all:
                m = min(m, abs(e["score"] - c))
        cds: List[float] = []
        for e in f.ests:
            for g in f.gts:
                be, bg = e["box"], g["box"]
                cd = G.center_distance(be, bg)
                cds.append(cd)
                for t in thr_cd:
                    m = min(m, _tm(False, cd, t))
                if True:
                    pd, amb = G.plane_distance(be, bg, None)
                    m = min(m, amb)
                    for t in thr_pd + pf_thr:
                        m = min(m, _tm(False, pd, t))
                    i2, i3 = G.iou_bev(be, bg), G.iou_3d(be, bg)
                    for t in thr_i2:
                        m = min(m, _tm(True, i2, t))
                    for t in thr_i3:
                        m = min(m, _tm(True, i3, t))
        cds.sort()
        for a, b in zip(cds, cds[1:]):
            m = min(m, b - a)
    return m
