"""Reference model of AP / APH / mAP and the taps on Ap.__init__ / Map.__init__ (C04, C08, C07, C13)."""
from __future__ import annotations

import math
from typing import Any, Callable, Dict, List, Optional, Sequence, Tuple

import numpy as np

from perception_eval.evaluation.matching import MatchingMode
from perception_eval.evaluation.metrics.detection import ap as ap_mod
from perception_eval.evaluation.metrics.detection import map as map_mod
from perception_eval.evaluation.metrics.detection.tp_metrics import TPMetricsAph

from . import matching
from .core import BOUNDARY, Ctx, Taps, close, guarded
from .gen import objects as O
from .oracles import geometry as G


def flatten(object_results: Sequence[Any]) -> List[Any]:
    if len(object_results) == 0 or not isinstance(object_results[0], list):
        return list(object_results)
    out: List[Any] = []
    for x in object_results:
        out += x
    return out


def heading_weight(est: Any, gt: Any) -> float:
    ye = O.box_of(est)[3]
    yg = O.box_of(gt)[3]
    return 1.0 - G.yaw_diff_abs(ye, yg) / math.pi


def result_score(r: Any, mode: MatchingMode) -> Tuple[Optional[float], float]:
    """Oracle's matching score of a pair (None if no GT)."""
    e, g = r.estimated_object, r.ground_truth_object
    if g is None:
        return None, 1.0
    if mode == MatchingMode.PLANEDISTANCE and O.frame_of(g) != "base_link":
        # the ego pose is not available here; the stored value is validated by C06/C07
        v = r.plane_distance.value
        return (None if v is None else float(v)), 1.0
    return matching.oracle_score(e, g, mode, None)


def decide(r: Any, mode: MatchingMode, target_labels: Sequence[Any], thresholds: Sequence[float]) -> Tuple[str, bool]:
    """'tp' | 'fp' | 'ignored' for one result, and whether the decision is near a boundary."""
    e, g = r.estimated_object, r.ground_truth_object
    ref = g if g is not None else e
    thr = matching.label_threshold(ref, target_labels, thresholds)
    if thr is None:
        return "ignored", False
    if g is None:
        return "fp", False
    compat = matching.compatible(r.matching_label_policy, e, g)
    s, amb = result_score(r, mode)
    near = amb < BOUNDARY or (s is not None and matching.threshold_margin(mode, s, thr) < BOUNDARY)
    is_better = s is not None and matching.better(mode, s, thr)
    if O.is_fp_label(g):
        return ("tp" if not is_better else "fp"), near
    return ("tp" if (is_better and compat) else "fp"), near


def reference_ap(weights: Sequence[float], n_gt: int) -> Tuple[float, List[float]]:
    """weights[i] = TP weight of the i-th ranked result (0 for FP / ignored). Returns (AP, cumulative TP).

    AP = sum_i (w_i / nGT) * max_{j >= i} precision_j  -- the area under the precision envelope."""
    n = len(weights)
    cum, c = [], 0.0
    for w in weights:
        c += w
        cum.append(c)
    if n == 0:
        return float("inf"), cum
    if n_gt <= 0:
        return 0.0, cum
    prec = [cum[i] / (i + 1) for i in range(n)]
    best = 0.0
    area = 0.0
    for i in range(n - 1, -1, -1):
        best = max(best, prec[i])
        area += (weights[i] / n_gt) * best
    return area, cum


def install_ap_taps(taps: Taps, ctx: Ctx, on_ap: Optional[Callable] = None, on_map: Optional[Callable] = None, judge_values: bool = True) -> None:
    def ap_factory(orig):
        def __init__(self, tp_metrics, object_results, num_ground_truth, target_labels, matching_mode, matching_threshold_list):
            snap = flatten(object_results)
            orig(self, tp_metrics, object_results, num_ground_truth, target_labels, matching_mode, matching_threshold_list)
            ctx.count("Ap.calls")
            if judge_values:
                guarded(ctx, "Ap", lambda: judge_ap(ctx, self, snap))
            if on_ap is not None:
                on_ap(self, snap)

        return __init__

    taps.method(ap_mod.Ap, "__init__", ap_factory, tapname="Ap")

    def map_factory(orig):
        def __init__(self, *args, **kwargs):
            orig(self, *args, **kwargs)
            ctx.count("Map.calls")
            if judge_values:
                guarded(ctx, "Map", lambda: judge_map(ctx, self))
            if on_map is not None:
                on_map(self)

        return __init__

    taps.method(map_mod.Map, "__init__", map_factory, tapname="Map")


def judge_ap(ctx: Ctx, ap: Any, snap: List[Any]) -> None:
    tap = "Ap"
    mode = ap.matching_mode
    is_aph = isinstance(ap.tp_metrics, TPMetricsAph)
    n_gt = ap.num_ground_truth
    ranked = sorted(snap, key=lambda r: r.estimated_object.semantic_score, reverse=True)
    scores = [r.estimated_object.semantic_score for r in ranked]
    ties = any(scores[i] == scores[i + 1] for i in range(len(scores) - 1))
    kinds, weights, near = [], [], False
    for r in ranked:
        k, nb = decide(r, mode, ap.target_labels, ap.matching_threshold_list)
        near = near or nb
        kinds.append(k)
        if k == "tp":
            weights.append(heading_weight(r.estimated_object, r.ground_truth_object) if is_aph else 1.0)
        else:
            weights.append(0.0)
    info = dict(metric="APH" if is_aph else "AP", mode=str(mode), n=len(ranked), n_gt=n_gt, kinds="".join(k[0] for k in kinds)[:80], thresholds=list(ap.matching_threshold_list), labels=[str(x) for x in ap.target_labels])
    if near:
        ctx.count("Ap.skipped_boundary")
        return
    ctx.count("Ap.events_judged")
    ref, cum = reference_ap(weights, n_gt)
    info.update(expected=ref, observed=ap.ap, weights=[round(w, 6) for w in weights[:40]])
    if not ties:
        if len(ranked) > 0:
            ok = len(ap.tp_list) == len(cum) and all(close(a, b, 1e-9, 1e-9) for a, b in zip(ap.tp_list, cum))
            ctx.check(ok, "C04/tp_list_not_cumulative_weighted_tp", dict(info, tp_list=list(ap.tp_list)[:40], expected_cum=cum[:40]), tap)
        ctx.check(close(float(ap.ap), ref, 1e-9, 1e-9), "C04/ap_differs_from_interpolated_pr_area", info, tap)
    else:
        ctx.count("Ap.confidence_ties")
        # tie-safe: with ties the ranking among equal confidences is unspecified -> only order-free clauses
    n_tp = sum(1 for k in kinds if k == "tp")
    total_w = sum(weights)
    consistent = n_tp <= n_gt  # implied by one-to-one matching + ground-truth conservation
    if len(ranked) > 0:
        ctx.check(not (isinstance(ap.ap, float) and math.isinf(ap.ap)), "C04/ap_undefined_with_results", info, tap)
        if consistent:
            ctx.count("Ap.range_checked")
            ctx.check(-1e-12 <= ap.ap <= 1.0 + 1e-9, "C04/ap_outside_unit_interval", info, tap)
        if n_tp == 0:
            ctx.count("Ap.class_zero")
            ctx.check(abs(ap.ap) <= 1e-12, "C04/ap_nonzero_without_correct_estimate", info, tap)
        if not is_aph and n_gt > 0 and n_tp == n_gt and all(k == "tp" for k in kinds[:n_tp]):
            ctx.count("Ap.class_one")
            ctx.check(close(float(ap.ap), 1.0, 1e-9, 1e-9), "C04/ap_not_one_in_perfect_class", info, tap)
    else:
        ctx.check(isinstance(ap.ap, float) and math.isinf(ap.ap), "C04/ap_defined_without_results", info, tap)
    ap._verif = dict(kinds=kinds, weights=weights, ref=ref, ties=ties, n_tp=n_tp, total_w=total_w)


def judge_map(ctx: Ctx, m: Any) -> None:
    tap = "Map"
    ctx.count("Map.checked")
    aps = [a.ap for a in m.aps]
    valid = [v for v in aps if not math.isinf(v)]
    exp = sum(valid) / len(valid) if valid else float("inf")
    info = dict(mode=str(m.matching_mode), aps=aps, aphs=[a.ap for a in m.aphs], map=m.map, maph=m.maph)
    ctx.check(close(float(m.map), exp, 1e-12, 1e-12), "C04/map_not_mean_of_defined_aps", info, tap)
    if not m.is_detection_2d:
        aphs = [a.ap for a in m.aphs]
        validh = [v for v in aphs if not math.isinf(v)]
        exph = sum(validh) / len(validh) if validh else float("inf")
        ctx.check(close(float(m.maph), exph, 1e-12, 1e-12), "C04/maph_not_mean_of_defined_aphs", info, tap)
        ctx.check(len(aphs) == len(aps), "C04/aph_missing_for_label", info, tap)
        for a, h in zip(m.aps, m.aphs):
            va, vh = getattr(a, "_verif", None), getattr(h, "_verif", None)
            if math.isinf(a.ap) or math.isinf(h.ap):
                ctx.check(math.isinf(a.ap) and math.isinf(h.ap), "C04/ap_aph_definedness_differs", info, tap)
                continue
            if va is None or vh is None or va["ties"]:
                continue
            ctx.count("Map.aph_le_ap_checked")
            ctx.check(h.ap <= a.ap + 1e-9, "C04/aph_exceeds_ap", dict(info, label=str(a.target_labels[0])), tap)


def judge_detection_against_frames(ctx: Ctx, ms: Any, frames: Sequence[Any], labels: Sequence[Any], mechanism: str, tap: str, info: Optional[Dict[str, Any]] = None) -> None:
    """The detection scores in `ms` must be the scores of the object results / ground truths of `frames` pooled
    (one frame => that frame's own score). Grouping rule = the library's: a result counts under its estimate's label,
    or under its ground truth's label when the estimate's label is not a target."""
    pooled: Dict[Any, List[Any]] = {l: [] for l in labels}
    n_gt: Dict[Any, int] = {l: 0 for l in labels}
    for fr in frames:
        for r in fr.object_results:
            lab = r.estimated_object.semantic_label.label
            if lab not in pooled:
                if r.ground_truth_object is None:
                    continue
                lab = r.ground_truth_object.semantic_label.label
                if lab not in pooled:
                    continue
            pooled[lab].append(r)
        for g in fr.frame_ground_truth.objects:
            if g.semantic_label.label in n_gt:
                n_gt[g.semantic_label.label] += 1
    info = dict(info or {}, n_frames=len(frames), n_gt=sum(n_gt.values()))
    # the ground-truth counts belong to the ranking: every result of a frame is paired with one of the ground truths
    # counted for that frame (otherwise recall is measured against a count its own TPs are not part of, and AP leaves [0,1])
    for k, fr in enumerate(frames):
        counted = {id(g) for g in fr.frame_ground_truth.objects}

        def key(o):  # (an implementation may hold copies of the annotated objects: same object = same id, label and pose)
            p = getattr(o.state, "position", None)
            return (o.uuid, str(o.semantic_label.label), None if p is None else tuple(round(float(v), 9) for v in p), O.frame_of(o))

        counted_keys = {key(g) for g in fr.frame_ground_truth.objects}
        stray = [r for r in fr.object_results if r.ground_truth_object is not None and id(r.ground_truth_object) not in counted and key(r.ground_truth_object) not in counted_keys]
        ctx.count(f"{tap}.result_gt_membership_checked")
        if stray:
            ctx.violation("C04/ranked_result_paired_with_ground_truth_missing_from_the_frames_count", dict(info, frame=k, n_stray=len(stray), example=dict(est=O.describe(stray[0].estimated_object), gt=O.describe(stray[0].ground_truth_object))), tap=tap)
            break
    # the maps of a mode are computed with the thresholds configured for THAT mode (every configured list, in order)
    dc = getattr(ms, "detection_config", None)
    if dc is not None:
        configured = {MatchingMode.CENTERDISTANCE: dc.center_distance_thresholds, MatchingMode.IOU2D: dc.iou_2d_thresholds, MatchingMode.IOU3D: getattr(dc, "iou_3d_thresholds", None), MatchingMode.PLANEDISTANCE: getattr(dc, "plane_distance_thresholds", None)}
        used: Dict[Any, List[Any]] = {}
        for m in ms.maps:
            used.setdefault(m.matching_mode, []).append([float(t) for t in m.matching_threshold_list])
        for mode_, lists in used.items():
            want = configured.get(mode_)
            if want is None:
                continue
            ctx.count(f"{tap}.configured_thresholds_checked")
            ctx.check(lists == [[float(t) for t in row] for row in want], "C04/maps_of_a_mode_not_computed_with_that_modes_configured_thresholds", dict(info, mode=str(mode_), used=lists, configured=[[float(t) for t in row] for row in want]), tap)
    for m in ms.maps:
        for i, lab in enumerate(m.target_labels):
            if lab not in pooled:
                continue
            thr = m.matching_threshold_list[i]
            for metric, apobj in (("AP", m.aps[i]),) + ((("APH", m.aphs[i]),) if m.aphs else ()):
                ranked = sorted(pooled[lab], key=lambda r: r.estimated_object.semantic_score, reverse=True)
                weights, near = [], False
                for r in ranked:
                    k, nb = decide(r, m.matching_mode, [lab], [thr])
                    near = near or nb
                    weights.append((heading_weight(r.estimated_object, r.ground_truth_object) if metric == "APH" else 1.0) if k == "tp" else 0.0)
                if near:
                    ctx.count(f"{tap}.skipped_boundary")
                    continue
                sc = [r.estimated_object.semantic_score for r in ranked]
                if any(a == b for a, b in zip(sc, sc[1:])):
                    continue
                ref, _ = reference_ap(weights, n_gt[lab])
                ctx.count(f"{tap}.metrics_recomputed")
                ctx.check(
                    apobj.num_ground_truth == n_gt[lab] and apobj.objects_results_num == len(ranked) and close(float(apobj.ap), ref, 1e-9, 1e-9),
                    mechanism,
                    dict(info, metric=metric, mode=str(m.matching_mode), label=str(lab), value=apobj.ap, recomputed=ref, n_results=apobj.objects_results_num, recomputed_n_results=len(ranked), n_gt_used=apobj.num_ground_truth, recomputed_n_gt=n_gt[lab]),
                    tap,
                )
