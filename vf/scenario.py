"""Scenario simulator: a moving ego, ground-truth tracks, a detector/tracker model -> synthetic dataset
-> the real PerceptionEvaluationManager. All taps that are installed stay live during these runs."""
from __future__ import annotations

from dataclasses import dataclass, field
import math
import random
from typing import Any, Callable, Dict, List, Optional, Sequence, Tuple

import numpy as np

from .core import Ctx
from .gen import dataset as D
from .gen import objects as O
from .oracles import geometry as G

GT_CATEGORIES = [
    # (category name in the dataset, canonical label without merging, with merging)
    ("car", "car", "car"),
    ("vehicle.car", "car", "car"),
    ("vehicle.bus", "bus", "car"),
    ("truck", "truck", "car"),
    ("bicycle", "bicycle", "bicycle"),
    ("motorcycle", "motorbike", "bicycle"),
    ("pedestrian.adult", "pedestrian", "pedestrian"),
    ("pedestrian", "pedestrian", "pedestrian"),
    ("animal", "unknown", "unknown"),
    ("movable_object.barrier", "unknown", "unknown"),
    ("some.unregistered_thing", "unknown", "unknown"),
    ("false_positive", "false_positive", "false_positive"),
]
EST_NAMES = ["car", "bus", "truck", "bicycle", "motorbike", "pedestrian", "unknown"]
CONFUSION = {"car": ["truck", "bus"], "bus": ["car", "truck"], "truck": ["car", "bus"], "bicycle": ["motorbike", "pedestrian"], "motorbike": ["bicycle"], "pedestrian": ["bicycle"]}


@dataclass
class Frame:
    t: int
    ego_pos: Tuple[float, float, float]
    ego_yaw: float
    gts: List[Dict[str, Any]] = field(default_factory=list)  # key, category, box (ego frame), npts, vis, attrs
    ests: List[Dict[str, Any]] = field(default_factory=list)  # key, name, box (ego frame), score, uuid


@dataclass
class Scenario:
    task: str
    frames: List[Frame]
    cfg: Dict[str, Any]  # evaluation_config_dict without frame-dependent parts
    critical: List[Dict[str, Any]]  # per frame kwargs of CriticalObjectFilterConfig
    passfail: List[Dict[str, Any]]  # per frame kwargs of PerceptionPassFailConfig
    info: Dict[str, Any] = field(default_factory=dict)

    def scene_spec(self) -> D.SceneSpec:
        samples = []
        for f in self.frames:
            anns = []
            for g in f.gts:
                pos, yaw = D.global_pose(f.ego_pos, f.ego_yaw, g["box"])
                anns.append(D.Ann(inst=g["key"], category=g["category"], pos=pos, yaw=yaw, size=tuple(g["box"][4:7]), npts=g["npts"], vis=g["vis"], attrs=tuple(g["attrs"]), key=g["key"]))
            samples.append(D.Sample(t=f.t, ego_pos=f.ego_pos, ego_yaw=f.ego_yaw, anns=anns))
        return D.SceneSpec(samples=samples)

    def make_estimates(self, k: int, frame_id: str, converter: Any, negate: bool = False) -> List[Any]:
        f = self.frames[k]
        out = []
        for e in f.ests:
            b = e["box"]
            lab = converter.convert_label(e["name"])
            o = O.obj3d(b[0], b[1], b[2], b[3], b[4], b[5], b[6], lab="car", score=e["score"], uuid=e["uuid"], t=f.t, negate_q=negate and (hash(e["uuid"]) & 1 == 0), velocity=(1.0, 0.0, 0.0))
            o.semantic_label = lab
            if frame_id == "map":
                o = O.to_map(o, f.ego_pos, f.ego_yaw)
                if e.get("int_map") and all(abs(v - round(v)) < 1e-6 for v in o.state.position):
                    # a map position on the integer grid handed over as Python ints (hand-written scenarios, grid maps)
                    o.state.position = tuple(int(round(v)) for v in o.state.position)
            out.append(o)
        return out


def _ring_or_box(r: random.Random, n_labels: int, wide: float) -> Dict[str, Any]:
    if r.random() < 0.5:
        return {
            "max_x_position_list": [round(r.uniform(0.3, 1.0) * wide, 2) for _ in range(n_labels)],
            "max_y_position_list": [round(r.uniform(0.3, 1.0) * wide, 2) for _ in range(n_labels)],
        }
    return {
        "max_distance_list": [round(r.uniform(0.4, 1.2) * wide, 2) for _ in range(n_labels)],
        "min_distance_list": [round(r.choice([0.0, 0.0, r.uniform(0, 0.3) * wide]), 2) for _ in range(n_labels)],
    }


def gen_scenario(r: random.Random, task: Optional[str] = None, n_frames: Optional[int] = None, big: bool = False, fp_share: Optional[float] = None, overrides: Optional[Dict[str, Any]] = None, det: Optional[Dict[str, Any]] = None, categories: Optional[List[str]] = None, target: Optional[List[str]] = None, merge: Optional[bool] = None, fast_ego: bool = False, dt_us: Optional[int] = None) -> Scenario:
    task = task or r.choice(["detection", "detection", "tracking", "fp_validation"])
    n_frames = n_frames or r.randint(1, 4 if not big else 8)
    wide = r.choice([30.0, 60.0, 100.0])
    far_ego = r.random() < 0.5
    far = r.choice([1e4, 1e5, 1e5])  # map coordinates of the order of an MGRS grid cell
    ego_pos = (r.uniform(-far, far), r.uniform(-far, far), r.uniform(-3, 3)) if far_ego else (r.uniform(-100, 100), r.uniform(-100, 100), 0.0)
    ego_yaw = O.rand_yaw(r)
    ego_speed = r.uniform(0, 15) if not fast_ego else r.uniform(15, 40)
    ego_yawrate = r.uniform(-0.5, 0.5) if not fast_ego else r.choice([-1, 1]) * r.uniform(0.3, 0.9)
    if not fast_ego and r.random() < 0.15:
        # an ego heading that is almost, but not exactly, along a map axis (quaternion w or z within 1e-5 of 1): driving
        # straight along a grid-aligned road. The rotation is small, its effect at 100 m (up to a metre) is not.
        ego_yaw = G.wrap_pi(r.choice([0.0, 0.0, math.pi / 2, -math.pi / 2, math.pi]) + r.choice([-1, 1]) * 10 ** r.uniform(-4, -2.05))
        ego_yawrate = r.uniform(-1, 1) * 1e-3
    t0 = 1_600_000_000_000_000 + r.randint(0, 10**9)
    dt = r.choice([100_000, 100_000, 50_000, 500_000, 100_000, 1_500_000, 2_500_000])  # (sparse key frames: gaps above a second)
    if dt_us is not None:
        dt = dt_us
    _merge_default = r.random() < 0.3
    merge = _merge_default if merge is None else merge

    n_tracks = r.randint(0, 10 if not big else 20)
    cats = GT_CATEGORIES if task != "fp_validation" else [c for c in GT_CATEGORIES if c[0] == "false_positive"]
    if categories is not None:
        cats = [c for c in GT_CATEGORIES if c[0] in categories]
    _fp_default = r.choice([0.0, 0.15, 0.4]) if task != "fp_validation" else 1.0
    fp_share = _fp_default if fp_share is None else fp_share
    tracks = []
    for i in range(n_tracks):
        if r.random() < fp_share:
            cat = ("false_positive", "false_positive", "false_positive")
        else:
            cat = r.choice([c for c in cats if c[0] != "false_positive"] or cats)
        rad = r.uniform(0, 1.3) * wide
        ang = r.uniform(-math.pi, math.pi)
        tracks.append(
            dict(
                key=f"inst{i:03d}",
                cat=cat,
                # a few objects well above / below the ego (overpass, ramp): planar range criteria must ignore height
                p=[rad * math.cos(ang), rad * math.sin(ang), r.uniform(-0.5, 0.5) if r.random() > 0.15 else r.choice([-1, 1]) * r.uniform(4.0, 15.0)],
                v=[r.uniform(-8, 8), r.uniform(-8, 8)],
                yaw=O.rand_yaw(r),
                yawrate=r.uniform(-0.3, 0.3),
                size=(r.uniform(0.4, 2.6), r.uniform(0.4, 7.0), r.uniform(0.8, 3.2)),
                npts=r.choice([0, 1, 3, 10, 50, 200]),
                vis=r.choice(["full", "most", "partial", "none"]),
                born=r.randint(0, max(0, n_frames - 1)) if r.random() < 0.25 else 0,
                dies=r.randint(1, n_frames) if r.random() < 0.2 else n_frames,
                attrs=r.choice([[], [], ["vehicle.moving"], ["cycle.with_rider"], ["vehicle.parked", "extra"]]),
                trk_id=f"trk{i:03d}",
            )
        )
    if tracks and r.random() < 0.3:
        # two distinct objects of one label standing / moving side by side a few decimetres apart (a group of
        # pedestrians): distinct ground truths however close they are
        src = r.choice(tracks)
        twin = dict(src, key=f"inst{len(tracks):03d}", trk_id=f"trk{len(tracks):03d}", p=[src["p"][0] + r.choice([-1, 1]) * r.uniform(0.2, 0.5), src["p"][1] + r.choice([-1, 1]) * r.uniform(0.0, 0.4), src["p"][2]])
        tracks.append(twin)
        n_tracks += 1
    p_det = r.choice([1.0, 0.9, 0.6])
    pos_sig = r.choice([0.02, 0.2, 0.8, 2.0])
    yaw_sig = r.choice([0.0, 0.05, 0.5, 2.0])
    p_conf = r.choice([0.0, 0.1, 0.4])
    p_unknown = r.choice([0.0, 0.1, 0.3])
    n_fa = r.choice([0, 0, 1, 3])
    p_switch = r.choice([0.0, 0.0, 0.15, 0.4])
    if det:  # detector-model overrides (workloads that need a specific regime)
        p_det, pos_sig, yaw_sig, p_conf, p_unknown, n_fa, p_switch = (det.get(k, v) for k, v in (("p_det", p_det), ("pos_sig", pos_sig), ("yaw_sig", yaw_sig), ("p_conf", p_conf), ("p_unknown", p_unknown), ("n_fa", n_fa), ("p_switch", p_switch)))

    frames: List[Frame] = []
    next_id = [1000]
    for k in range(n_frames):
        tk = t0 + k * dt
        sec = k * dt * 1e-6
        ey = G.wrap_pi(ego_yaw + ego_yawrate * sec)
        ep = (ego_pos[0] + ego_speed * sec * math.cos(ego_yaw), ego_pos[1] + ego_speed * sec * math.sin(ego_yaw), ego_pos[2])
        fr = Frame(t=tk, ego_pos=ep, ego_yaw=ey)
        for tr in tracks:
            if not (tr["born"] <= k < tr["dies"]):
                continue
            x = tr["p"][0] + tr["v"][0] * sec
            y = tr["p"][1] + tr["v"][1] * sec
            yaw = G.wrap_pi(tr["yaw"] + tr["yawrate"] * sec)
            box = (x, y, tr["p"][2], yaw, *tr["size"])
            fr.gts.append(dict(key=tr["key"], category=tr["cat"][0], canon=tr["cat"][2 if merge else 1], box=box, npts=tr["npts"], vis=tr["vis"], attrs=tr["attrs"]))
            if r.random() < p_det:
                if k > 0 and r.random() < p_switch:
                    next_id[0] += 1
                    tr["trk_id"] = f"trk{next_id[0]}"
                name = tr["cat"][1]
                if name in ("unknown", "false_positive"):
                    name = r.choice(EST_NAMES)
                elif r.random() < p_unknown:
                    name = "unknown"
                elif r.random() < p_conf:
                    name = (det or {}).get("force_name") or r.choice(CONFUSION.get(name, ["car"]))
                eb = (
                    x + r.gauss(0, pos_sig),
                    y + r.gauss(0, pos_sig),
                    tr["p"][2] + r.gauss(0, 0.1),
                    G.wrap_pi(yaw + r.gauss(0, yaw_sig) + (math.pi if r.random() < 0.05 else 0.0)),
                    max(0.1, tr["size"][0] + r.gauss(0, 0.1)),
                    max(0.1, tr["size"][1] + r.gauss(0, 0.3)),
                    max(0.1, tr["size"][2] + r.gauss(0, 0.1)),
                )
                fr.ests.append(dict(key=f"e{k}_{tr['key']}", name=name, box=eb, score=round(r.uniform(0.05, 1.0), 4), uuid=tr["trk_id"]))
        for j in range(n_fa):
            rad = r.uniform(0, 1.3) * wide
            ang = r.uniform(-math.pi, math.pi)
            fr.ests.append(
                dict(
                    key=f"e{k}_fa{j}",
                    name=r.choice(EST_NAMES),
                    box=(rad * math.cos(ang), rad * math.sin(ang), 0.0, O.rand_yaw(r), r.uniform(0.5, 2.5), r.uniform(0.5, 5), r.uniform(1, 3)),
                    score=round(r.uniform(0.05, 1.0), 4),
                    uuid=f"fa{k}_{j}",
                )
            )
        # distinct confidences inside a frame and across frames help order-free comparisons
        r.shuffle(fr.ests)
        frames.append(fr)
    seen_scores = set()
    for fr in frames:
        for e in fr.ests:
            while e["score"] in seen_scores:
                # strictly decreasing, so it terminates (the earlier contraction s*0.999+1e-4 has the fixed point 0.1 and
                # looped forever once rounding stopped it moving: found when a thorough C07 shard never returned)
                e["score"] = round(e["score"] - 1e-6, 6)
            seen_scores.add(e["score"])

    if r.random() < 0.15:
        # two estimates of different frames whose confidences are distinct but adjacent floating-point numbers: still a
        # strict order
        with_ests = [fr for fr in frames if fr.ests]
        if len(with_ests) >= 2:
            fa, fb = r.sample(with_ests, 2)
            ea, eb = r.choice(fa.ests), r.choice(fb.ests)
            cand = float(np.nextafter(ea["score"], 2.0))
            if cand not in seen_scores:
                seen_scores.discard(eb["score"])
                eb["score"] = cand
                seen_scores.add(cand)

    # ---- evaluation config -------------------------------------------------------------
    tl_pool = ["car", "bicycle", "pedestrian"] if merge else ["car", "truck", "bus", "bicycle", "motorbike", "pedestrian"]
    _target_default = r.sample(tl_pool, r.randint(1, len(tl_pool)))
    target = _target_default if target is None else list(target)
    if r.random() < 0.35:
        target.append("unknown")
    # NOTE: in tracking the library crashes (KeyError in evaluate_frame) when a previous frame paired a non-target
    # estimate with an FP-labelled ground truth and `false_positive` is not a target label; that is outside the
    # properties monitored here, so tracking scenarios with FP-labelled ground truth always target the label.
    if task == "fp_validation" or r.random() < 0.25 or (task == "tracking" and fp_share > 0):
        target.append("false_positive")
    nl = len(target)
    cfg: Dict[str, Any] = {
        "evaluation_task": task,
        "target_labels": target,
        "label_prefix": "autoware",
        "merge_similar_labels": merge,
        "matching_label_policy": r.choice(["DEFAULT", "ALLOW_UNKNOWN", "ALLOW_ANY"]),
        "min_point_numbers": [r.choice([0, 0, 1, 5]) for _ in range(nl)],
        "center_distance_thresholds": [[round(r.uniform(0.3, 3.0), 2) for _ in range(nl)], [r.choice([1.0, 2.0])]] if r.random() < 0.5 else [round(r.uniform(0.3, 3.0), 2)],
        "plane_distance_thresholds": [round(r.uniform(0.3, 3.0), 2)],
        "iou_2d_thresholds": [round(r.uniform(0.1, 0.7), 2)],
        "iou_3d_thresholds": [round(r.uniform(0.1, 0.7), 2)],
    }
    if r.random() < 0.5:
        cfg["max_x_position"] = wide
        cfg["max_y_position"] = wide if r.random() < 0.4 else round(wide * r.uniform(0.45, 1.4), 1)  # not always a square
    else:
        cfg["max_distance"] = wide * 1.2
        cfg["min_distance"] = r.choice([0.0, 0.0, 2.0])
    if r.random() < 0.4:
        cfg["max_matchable_radii"] = [round(r.uniform(1.0, 6.0), 2) for _ in range(nl)] if r.random() < 0.5 else round(r.uniform(1.0, 6.0), 2)
    if r.random() < 0.12:
        # thresholds of exactly zero are legal values ("any overlap" for IoU, "nothing" for a distance), not "unset"
        zk = r.choice(["iou_2d_thresholds", "iou_3d_thresholds", "center_distance_thresholds", "plane_distance_thresholds", "max_matchable_radii"])
        if zk == "max_matchable_radii":
            cfg[zk] = [0.0 if (j == 0 or r.random() < 0.3) else round(r.uniform(1.0, 6.0), 2) for j in range(nl)]
        elif isinstance(cfg[zk][0], list):
            cfg[zk][0][r.randrange(nl)] = 0.0
        else:
            cfg[zk] = [[0.0 if (j == 0 or r.random() < 0.3) else cfg[zk][0] for j in range(nl)]]
    if r.random() < 0.3:
        cfg["confidence_threshold"] = round(r.uniform(0.0, 0.5), 2)
    if r.random() < 0.15:
        cfg["ignore_attributes"] = r.choice([["vehicle.parked"], ["cycle"], ["extra", "nothing"]])
    if task == "fp_validation":
        for k_ in ("center_distance_thresholds", "plane_distance_thresholds", "iou_2d_thresholds", "iou_3d_thresholds"):
            cfg.pop(k_)

    if tracks and r.random() < 0.12:
        # evaluator-level uuid filter: only some ground-truth instances are evaluated
        cfg["target_uuids"] = [t["key"] for t in r.sample(tracks, r.randint(1, len(tracks)))]
    if overrides:
        cfg.update(overrides)
    critical, passfail = [], []
    for k in range(n_frames):
        # NOTE: the library indexes per-label dictionaries built from the critical filter's labels with the
        # evaluator's target labels, so the critical labels must cover them: same set, possibly permuted.
        crit_labels = list(target) if r.random() < 0.7 else r.sample(target, nl)
        c = {"target_labels": crit_labels, **_ring_or_box(r, len(crit_labels), wide)}
        if r.random() < 0.3:
            c["min_point_numbers"] = [r.choice([0, 1, 5]) for _ in crit_labels]
        if r.random() < 0.35:
            c["confidence_threshold_list"] = [round(r.uniform(0, 0.6), 2) for _ in crit_labels]
        if tracks and r.random() < 0.1:
            c["target_uuids"] = [t["key"] for t in r.sample(tracks, r.randint(1, len(tracks)))]
        if r.random() < 0.1:
            c["ignore_attributes"] = r.choice([["vehicle.parked"], ["cycle"], ["extra"]])
        critical.append(c)
        pf_labels = list(crit_labels) if r.random() < 0.6 else list(target)
        if "false_positive" not in pf_labels and r.random() < 0.3:
            pf_labels.append("false_positive")
        pf = {"target_labels": pf_labels, "matching_threshold_list": [round(r.choice([0.05, 0.5, 1.0, 2.0, 5.0, 50.0]) * r.uniform(0.8, 1.2), 3) if r.random() > 0.06 else 0.0 for _ in pf_labels]}
        if r.random() < 0.3:
            # the pass/fail configuration's own optional per-label confidence list
            pf["confidence_threshold_list"] = [round(r.uniform(0.2, 0.9), 2) for _ in pf_labels]
        passfail.append(pf)
    if n_frames > 1 and r.random() < 0.5:
        # one critical filter / pass-fail configuration for the whole sequence (what a driver script does): the very same
        # configuration objects are then handed to every frame (see Run.configs)
        critical = [critical[0]] * n_frames
        passfail = [passfail[0]] * n_frames
    info = dict(task=task, n_frames=n_frames, n_tracks=n_tracks, merge=merge, far_ego=far_ego, wide=wide, policy=cfg["matching_label_policy"], fp_share=fp_share, pos_sig=pos_sig, p_switch=p_switch)
    return Scenario(task=task, frames=frames, cfg=cfg, critical=critical, passfail=passfail, info=info)


# ----------------------------------------------------------------------------------------
# running a scenario through the real manager
# ----------------------------------------------------------------------------------------
class Run:
    def __init__(self, scn: Scenario, frame_id: str, ds: D.DatasetDir):
        from perception_eval.config import PerceptionEvaluationConfig
        from perception_eval.manager import PerceptionEvaluationManager

        self.scn, self.frame_id, self.ds = scn, frame_id, ds
        self.config = PerceptionEvaluationConfig(
            dataset_paths=[ds.root],
            frame_id=frame_id,
            result_root_directory=ds.result_root,
            evaluation_config_dict=dict(scn.cfg),
            load_raw_data=False,
        )
        self.manager = PerceptionEvaluationManager(evaluation_config=self.config)
        self.results: List[Any] = []
        self.estimates: List[List[Any]] = []

    def configs(self, k: int):
        from perception_eval.evaluation.result.perception_frame_config import CriticalObjectFilterConfig, PerceptionPassFailConfig

        # frames that share one parameter dictionary share one configuration *object* (built on first use)
        cache = self.__dict__.setdefault("_cfg_cache", {})
        key = (id(self.scn.critical[k]), id(self.scn.passfail[k]))
        if key not in cache:
            crit = CriticalObjectFilterConfig(evaluator_config=self.config, **self.scn.critical[k])
            pf = PerceptionPassFailConfig(evaluator_config=self.config, **self.scn.passfail[k])
            cache[key] = (crit, pf)
        return cache[key]

    def add(self, k: int, negate: bool = False, critical: Optional[Dict[str, Any]] = None, no_ego_pose: bool = False, inverse_registry: bool = False) -> Any:
        f = self.scn.frames[k]
        gt = self.manager.get_ground_truth_now_frame(f.t)
        if inverse_registry:
            # the same ego pose registered in the other direction (map -> base_link): the registry answers both directions
            # from either entry, so nothing in the evaluation may depend on which one was stored
            import copy as _copy

            from perception_eval.common.schema import FrameID as _F
            from perception_eval.common.transform import TransformDict

            gt = _copy.copy(gt)
            gt.transforms = TransformDict([gt.transforms[(_F.BASE_LINK, _F.MAP)].inv()])
        if no_ego_pose:
            # an ego-frame ground-truth frame built without an ego pose (FrameGroundTruth(transforms=None)): positions are
            # already ego-relative, so nothing in the evaluation may depend on the registry being empty
            import copy as _copy

            from perception_eval.common.transform import TransformDict

            assert self.frame_id == "base_link"
            gt = _copy.copy(gt)
            gt.transforms = TransformDict()
        ests = self.scn.make_estimates(k, self.frame_id, self.config.label_converter, negate=negate)
        crit, pf = self.configs(k)
        if critical is not None:
            from perception_eval.evaluation.result.perception_frame_config import CriticalObjectFilterConfig

            crit = CriticalObjectFilterConfig(evaluator_config=self.config, **critical)
        res = self.manager.add_frame_result(unix_time=f.t, ground_truth_now_frame=gt, estimated_objects=ests, critical_object_filter_config=crit, frame_pass_fail_config=pf)
        self.results.append(res)
        self.estimates.append(ests)
        return res

    def run_all(self) -> List[Any]:
        for k in range(len(self.scn.frames)):
            self.add(k)
        return self.results


def run_manager_scenarios(ctx: Ctx, workload: str, n: int, frame_ids: Sequence[str] = ("base_link", "map"), after: Optional[Callable] = None) -> None:
    """Generic realistic workload: every installed tap observes the internal calls."""
    for idx in ctx.indices(workload, n):
        r = ctx.rng(workload, idx)
        scn = gen_scenario(r)
        frame_id = frame_ids[idx % len(frame_ids)]
        ctx.begin_case(workload, idx, frame_id=frame_id, **scn.info)
        ctx.count("scenario.cases")
        try:
            with D.DatasetDir(scn.scene_spec()) as ds:
                run = Run(scn, frame_id, ds)
                run.run_all()
                scene = run.manager.get_scene_result()
                if after is not None:
                    after(run, scene)
        except Exception as e:
            # a crash of the pipeline is not what these properties state: counted, reported, never a verdict by itself
            import traceback

            ctx.count("scenario.exceptions")
            ctx.notes.setdefault("scenario_exception_samples", [])
            if len(ctx.notes["scenario_exception_samples"]) < 3:
                ctx.notes["scenario_exception_samples"].append(dict(scn.info, frame_id=frame_id, error=f"{type(e).__name__}: {str(e)[:200]}", tb=traceback.format_exc(limit=5)[-600:]))
            continue
        n_est = sum(len(f.ests) for f in scn.frames)
        n_gt = sum(len(f.gts) for f in scn.frames)
        ctx.count("scenario.frames", len(scn.frames))
        ctx.case(("scenario", scn.task, frame_id, scn.info["policy"], scn.info["merge"], min(n_est, 3), min(n_gt, 3), min(len(scn.frames), 3)), nontrivial=n_est > 0 and n_gt > 0, sample=dict(scn.info, frame_id=frame_id, n_est=n_est, n_gt=n_gt) if idx < 6 else None)
