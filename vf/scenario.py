def run_manager_scenarios(ctx, workload, n):
    return
