#!/venv/bin/python
"""Confirm an independently written behaviour-preserving change and keep it under /verif/refactors/<name>/.

usage: tools/confirm_refactor.py <source _seed dir> <name> [--no-suite] [--props C01,C02] [--open]

--open: the change alters behaviour the property statement leaves open: the demo must print PROPERTY HOLDS on both
        trees and its BEHAVIOUR digest must differ between them.

In a scratch git worktree of /repo (under /tmp, removed afterwards):
  1. demo.py on the unchanged tree must print PASS / exit 0 and a digest,
  2. patch.diff must apply, demo.py must print the same digest and PASS,
  3. the pinned test suite must still pass (110 passed) with the change,
  4. EVERY property's quick check (or the given ones) is run against the changed tree (VERIF_REPO): any VIOLATION is a
     false-alarm candidate (to be examined by hand: the change may not be behaviour-preserving after all), INCONCLUSIVE is
     recorded.
Results are written into refactors/<name>/meta.json ("confirmed").
"""
import concurrent.futures as cf
import json
import os
import re
import shutil
import subprocess
import sys
import tempfile
import time

ROOT = os.path.dirname(os.path.dirname(os.path.abspath(__file__)))


def sh(cmd, **kw):
    return subprocess.run(cmd, shell=True, capture_output=True, text=True, **kw)


def digest_of(out: str) -> str:
    m = re.findall(r"BEHAVIOUR\s+([0-9a-f]{32,64})", out) or re.findall(r"\b[0-9a-f]{32,64}\b", out)
    return m[-1] if m else ""


def main():
    src, name = sys.argv[1], sys.argv[2]
    run_suite = "--no-suite" not in sys.argv
    open_round = "--open" in sys.argv
    props = None
    if "--props" in sys.argv:
        props = sys.argv[sys.argv.index("--props") + 1].split(",")
    dst = os.path.join(ROOT, "refactors", name)
    os.makedirs(dst, exist_ok=True)
    if os.path.abspath(src) != os.path.abspath(dst):
        for f in ("patch.diff", "demo.py", "meta.json"):
            shutil.copy(os.path.join(src, f), os.path.join(dst, f))
    meta = json.load(open(os.path.join(dst, "meta.json")))
    if props is None:
        props = [c["property_id"] for c in json.load(open(os.path.join(ROOT, "MANIFEST.json")))["checks"]]
    wt = f"/tmp/confirm-{name}"
    sh(f"git -C /repo worktree remove --force {wt}")
    r = sh(f"git -C /repo worktree add -q --detach {wt} HEAD")
    assert r.returncode == 0, r.stderr
    conf = {"repo_head": sh("git -C /repo rev-parse --short HEAD").stdout.strip()}
    env = dict(os.environ, PYTHONPATH=f"{wt}/perception_eval", TQDM_DISABLE="1", MPLBACKEND="Agg")
    try:
        d0 = subprocess.run(["/venv/bin/python", os.path.join(dst, "demo.py")], cwd=wt, env=env, capture_output=True, text=True, timeout=1800)
        conf["demo_unchanged"] = {"rc": d0.returncode, "digest": digest_of(d0.stdout), "holds": "PROPERTY HOLDS" in d0.stdout, "tail": (d0.stdout + d0.stderr)[-200:]}
        a = sh(f"git -C {wt} apply {os.path.join(dst, 'patch.diff')}")
        conf["patch_applies"] = a.returncode == 0
        if a.returncode != 0:
            conf["apply_error"] = a.stderr[-300:]
        d1 = subprocess.run(["/venv/bin/python", os.path.join(dst, "demo.py")], cwd=wt, env=env, capture_output=True, text=True, timeout=1800)
        conf["demo_changed"] = {"rc": d1.returncode, "digest": digest_of(d1.stdout), "holds": "PROPERTY HOLDS" in d1.stdout, "tail": (d1.stdout + d1.stderr)[-200:]}
        conf["changed_lines"] = sh(f"git -C {wt} diff --shortstat").stdout.strip()
        if run_suite:
            t0 = time.time()
            suite_tmp = tempfile.mkdtemp(prefix="suite-tmp-")
            try:
                t = subprocess.run("/venv/bin/python -m pytest -q -p no:cacheprovider --timeout=900 perception_eval/test 2>&1 | tail -1", shell=True, cwd=wt, env=dict(env, TMPDIR=suite_tmp), capture_output=True, text=True, timeout=3600)
            finally:
                shutil.rmtree(suite_tmp, ignore_errors=True)
            conf["suite_with_change"] = t.stdout.strip()[-200:]
            conf["suite_wall_s"] = round(time.time() - t0)
        conf["checks"] = {}

        def one(p):
            t0 = time.time()
            c = subprocess.run([os.path.join(ROOT, "check"), p, "--tier", "quick", "--no-evidence"], cwd=ROOT, env=dict(os.environ, VERIF_REPO=wt), capture_output=True, text=True, timeout=3600)
            lines = [ln for ln in c.stdout.splitlines() if ln.startswith(("VIOLATION", "HELD", "INCONCLUSIVE", "KNOWN", "  mechanism"))]
            return p, {"rc": c.returncode, "lines": [ln[:400] for ln in lines[:6]], "wall_s": round(time.time() - t0)}

        with cf.ThreadPoolExecutor(max_workers=3) as ex:
            for p, v in ex.map(one, props):
                conf["checks"][p] = v
    finally:
        sh(f"git -C /repo worktree remove --force {wt}")
        shutil.rmtree(wt, ignore_errors=True)
    same_digest = conf["demo_unchanged"]["digest"] == conf["demo_changed"]["digest"] != ""
    ok = (
        conf.get("demo_unchanged", {}).get("rc") == 0
        and conf.get("patch_applies")
        and conf.get("demo_changed", {}).get("rc") == 0
        and (same_digest if not open_round else (not same_digest and conf["demo_changed"]["digest"] != "" and conf["demo_unchanged"]["holds"] and conf["demo_changed"]["holds"]))
        and (not run_suite or "110 passed" in conf.get("suite_with_change", ""))
    )
    conf["confirmed_equivalent_by_demo_and_suite" if not open_round else "confirmed_property_holds_and_behaviour_differs_by_demo_and_suite"] = bool(ok)
    conf["alarms"] = sorted(p for p, v in conf["checks"].items() if v["rc"] == 1)
    conf["inconclusive"] = sorted(p for p, v in conf["checks"].items() if v["rc"] not in (0, 1))
    meta["confirmed"] = conf
    json.dump(meta, open(os.path.join(dst, "meta.json"), "w"), indent=1)
    print(json.dumps({"name": name, "equivalent": ok, "suite": conf.get("suite_with_change"), "digests": (conf["demo_unchanged"]["digest"][:12], conf["demo_changed"]["digest"][:12]), "alarms": conf["alarms"], "inconclusive": conf["inconclusive"]}, indent=1)[:1500])


if __name__ == "__main__":
    main()
