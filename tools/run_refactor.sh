#!/bin/sh
# usage: tools/run_refactor.sh <refactor name> "<props>" [tier] [seed] -- run checks against a scratch worktree with the behaviour-preserving change applied
cd "$(dirname "$0")/.."
name=$1; props=$2; tier=${3:-quick}; seed=${4:-0}
wt=/tmp/runref-$name-$$
git -C /repo worktree add -q --detach $wt HEAD || exit 2
git -C $wt apply /verif/refactors/$name/patch.diff || { git -C /repo worktree remove --force $wt; exit 2; }
for p in $props; do
  VERIF_REPO=$wt ./check $p --tier $tier --seed $seed --no-evidence 2>&1 | grep -E "^(VIOLATION|HELD|INCONCLUSIVE|KNOWN|  mechanism)" | cut -c1-${WIDTH:-700} | head -6
done
git -C /repo worktree remove --force $wt
