#!/bin/sh
# usage: tools/run_seed.sh <seeded name> [tier] [seed]  -- run the seeded change's property check(s) against a scratch worktree with the change applied
cd "$(dirname "$0")/.."
name=$1; tier=${2:-quick}; seed=${3:-0}
wt=/tmp/runseed-$name-$$
git -C /repo worktree add -q --detach $wt HEAD || exit 2
git -C $wt apply /verif/seeded/$name/patch.diff || { git -C /repo worktree remove --force $wt; exit 2; }
props=$(python3 -c "import json;m=json.load(open('/verif/seeded/$name/meta.json'));print(' '.join(m.get('properties') or [m['property']]))")
for p in $props; do
  VERIF_REPO=$wt ./check $p --tier $tier --seed $seed --no-evidence 2>&1 | grep -E "^(VIOLATION|HELD|INCONCLUSIVE|  mechanism)" | cut -c1-260 | head -4
done
git -C /repo worktree remove --force $wt
