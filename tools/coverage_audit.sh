#!/bin/sh
# usage: tools/coverage_audit.sh [props...]   -- which functions of the anchored files does each quick check execute?
# Audit aid only (not a registered check): runs each quick check in one process under coverage.py and lists
# functions of the property's anchored files that were never entered.
cd "$(dirname "$0")/.." || exit 3
export TQDM_DISABLE=1 OMP_NUM_THREADS=1 OPENBLAS_NUM_THREADS=1 PYTHONHASHSEED=0 MPLBACKEND=Agg
props=${*:-C01 C02 C03 C04 C05 C06 C07 C08 C09 C10 C11 C12 C13 C14 C15 C16 C17 C18 C19 C20}
out=/dev/shm/cov; mkdir -p $out
for p in $props; do
  ( COVERAGE_FILE=$out/$p.cov /venv/bin/python -m coverage run --source=/repo/perception_eval/perception_eval -m vf.driver $p --tier quick --shard 0/1 --out $out/$p.shard.json > $out/$p.log 2>&1
    COVERAGE_FILE=$out/$p.cov /venv/bin/python -m coverage json -q -o $out/$p.json > /dev/null 2>&1 ) &
done
wait
/venv/bin/python - $props <<'PY'
import json,sys
props={}
for l in open('/verif/properties.jsonl'):
    d=json.loads(l); props[d['id']]=d
for p in sys.argv[1:]:
    try: cov=json.load(open(f'/dev/shm/cov/{p}.json'))
    except Exception as e: print(p,'no coverage',e); continue
    print(f'== {p}')
    for f in props[p]['anchors']['files']:
        key=[k for k in cov['files'] if k.endswith(f)]
        if not key: print('  ',f,'NOT LOADED'); continue
        fn=cov['files'][key[0]].get('functions',{})
        never=[n for n,v in fn.items() if n and v['summary']['covered_lines']==0 and v['summary']['num_statements']>0]
        part=[(n,v['summary']['percent_covered']) for n,v in fn.items() if n and 0<v['summary']['covered_lines'] and v['summary']['percent_covered']<60 and v['summary']['num_statements']>=6]
        print(f"   {f}: {cov['files'][key[0]]['summary']['percent_covered']:.0f}%  never entered: {never}")
        if part: print('      partly (<60%):', [(n,round(c)) for n,c in part])
PY
