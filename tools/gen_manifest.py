#!/venv/bin/python
"""Regenerate MANIFEST.json from the per-property table below (claimed = a vf/checks/cXX.py with LEVEL_TEXT exists)."""
import importlib.util, json, os, sys

ROOT = os.path.dirname(os.path.dirname(os.path.abspath(__file__)))
props = [json.loads(l) for l in open(os.path.join(ROOT, "properties.jsonl"))]
PENDING = "check not built yet in this round (runtime monitor planned in DESIGN.md); not claimed until it exists"

checks, na = [], []
for p in props:
    pid = p["id"]
    path = os.path.join(ROOT, "vf", "checks", pid.lower() + ".py")
    meta = {}
    if os.path.exists(path):
        src = open(path).read()
        ns = {}
        # only evaluate the simple module-level string constants
        import ast
        tree = ast.parse(src)
        for node in tree.body:
            if isinstance(node, ast.Assign) and len(node.targets) == 1 and isinstance(node.targets[0], ast.Name):
                name = node.targets[0].id
                if name in ("LEVEL_TEXT", "LEVEL_NOTE", "TECHNIQUE", "DESIGN_REF"):
                    try:
                        meta[name] = ast.literal_eval(node.value)
                    except Exception:
                        pass
    if "LEVEL_TEXT" not in meta:
        na.append({"property_id": pid, "reason": PENDING})
        continue
    checks.append({
        "property_id": pid,
        "quick_cmd": f"./check {pid} --tier quick",
        "thorough_cmd": f"./check {pid} --tier thorough",
        "evidence_file": f"/verif/evidence/{pid}.json",
        "replay_cmd_template": f"./check {pid} --replay {{path}}",
        "engine": "vf-runtime-monitors",
        "level_claimed": {"category": "exploration", "text": meta["LEVEL_TEXT"], "design_ref": meta.get("DESIGN_REF", f"DESIGN.md section 3 ({pid})")},
        "level_note": meta.get("LEVEL_NOTE", ""),
        "technique": meta.get("TECHNIQUE", "runtime monitoring: taps on the real functions + reference-model oracle over generated workloads"),
    })

manifest = {
    "version": 1,
    "setup_cmd": "./setup.sh",
    "hooks": {
        "guard": "PERCEPTION_EVAL_VERIF",
        "enable": "no source hooks are needed: monitors wrap the real functions from the harness (vf/core.py Taps); the guard name is reserved",
        "baseline_off_cmd": "cd /repo && /venv/bin/python -m pytest -ra -q -p no:cacheprovider --timeout=900 --continue-on-collection-errors",
        "source_commits": [],
        "add_only": True,
    },
    "engines": [{
        "name": "vf-runtime-monitors",
        "path": "/verif/vf",
        "serves_properties": [c["property_id"] for c in checks],
        "kind_free_text": "Python harness: taps (wrappers re-bound over every alias) on the real perception_eval functions, reference-model oracles, offline accounting checkers, two-execution comparators; workloads are seeded generators, exhaustive small scopes and scenario simulations through the real managers",
    }],
    "checks": checks,
    "not_applicable": na,
    "notes": "All checks run /repo's working tree (VERIF_REPO overrides for the mutant self-test). exit 0 held / 1 VIOLATION / 3 INCONCLUSIVE. Known findings: /verif/known_findings.json.",
}
json.dump(manifest, open(os.path.join(ROOT, "MANIFEST.json"), "w"), indent=1)
print("claimed:", [c["property_id"] for c in checks]); print("not claimed:", [n["property_id"] for n in na])
