#!/venv/bin/python
"""Write mutants/KILLMATRIX.md from mutants/RESULTS.json (+ seeded/*/meta.json)."""
import json
import os
import sys

ROOT = os.path.dirname(os.path.dirname(os.path.abspath(__file__)))
sys.path.insert(0, os.path.join(ROOT, "mutants"))
from mutants import MUTANTS  # noqa: E402

res = json.load(open(os.path.join(ROOT, "mutants", "RESULTS.json")))
what = {m["id"]: m["what"] for m in MUTANTS}
lines = ["# Kill matrix (mutants/selftest.py, quick tier unless noted)", "", "| change | property | verdict | first mechanism that fired | what the change does |", "|---|---|---|---|---|"]
n_k = n_s = 0
for key in sorted(res, key=lambda k: (k.split("/")[1], k)):
    r = res[key]
    mid, prop = key.rsplit("/", 1)
    mech = ""
    if r.get("mechanisms"):
        m = r["mechanisms"][0]
        mech = m.split("mechanism=")[1].split(" ")[0] if "mechanism=" in m else ""
    verdict = "killed" if r["killed"] else f"**survived** (rc={r['rc']})"
    n_k += r["killed"]
    n_s += not r["killed"]
    lines.append(f"| {mid} | {prop} | {verdict} ({r.get('tier','quick')}, {r.get('wall_s','?')} s) | `{mech}` | {r.get('what', what.get(mid, ''))} |")
lines += ["", f"{n_k} killed, {n_s} survived."]
lines += [
    "",
    "Survivors, explained (DESIGN.md sec. 8.2):",
    "",
    "* `S:C19n-...` - does not violate C19 as stated (under which label the error of a cross-label pair is filed is fixed neither by the statement nor by the documentation).",
    "* `S:C14h-...` - does not violate C14 as stated (no traffic-light table is documented for `fp_validation2d`; the changed converter stays self-consistent).",
]
open(os.path.join(ROOT, "mutants", "KILLMATRIX.md"), "w").write("\n".join(lines) + "\n")
print(f"{n_k} killed, {n_s} survived")
