#!/bin/sh
# tools/sweep.sh <tier> <seed-list> [props...]  : run checks for several seeds, print every non-HELD verdict line
tier=$1; seeds=$2; shift 2
props="$@"
[ -z "$props" ] && props=$(/venv/bin/python -c "import json;print(' '.join(c['property_id'] for c in json.load(open('MANIFEST.json'))['checks']))")
for s in $seeds; do
  for p in $props; do
    out=$(VERIF_SEED=$s ./check $p --tier $tier --no-evidence 2>&1); rc=$?
    echo "seed=$s $p rc=$rc $(echo "$out" | grep -E '^(HELD|VIOLATION|INCONCLUSIVE)' | head -2 | cut -c1-300)"
    [ $rc -ne 0 ] && echo "$out" | grep -A1 VIOLATION | cut -c1-600
  done
done
