#!/venv/bin/python
"""Confirm an independently written breaking change and keep it under /verif/seeded/<name>/.

usage: tools/confirm_seed.py <source _seed dir> <name> [--no-suite]

In a scratch git worktree of /repo (under /tmp, removed afterwards):
  1. demo.py on the unchanged tree must print PASS / exit 0,
  2. patch.diff must apply, demo.py must then print FAIL / exit 1,
  3. the pinned test suite must still pass (110 passed) with the change,
  4. the property's quick check is run against the changed tree (VERIF_REPO) and the verdict recorded.
Results are written into seeded/<name>/meta.json ("confirmed").
"""
import json
import os
import shutil
import subprocess
import sys
import tempfile
import time

ROOT = os.path.dirname(os.path.dirname(os.path.abspath(__file__)))


def sh(cmd, **kw):
    return subprocess.run(cmd, shell=True, capture_output=True, text=True, **kw)


def main():
    src, name = sys.argv[1], sys.argv[2]
    run_suite = "--no-suite" not in sys.argv
    dst = os.path.join(ROOT, "seeded", name)
    os.makedirs(dst, exist_ok=True)
    for f in ("patch.diff", "demo.py", "meta.json"):
        shutil.copy(os.path.join(src, f), os.path.join(dst, f))
    meta = json.load(open(os.path.join(dst, "meta.json")))
    props = meta.get("properties") or [meta["property"]]
    meta["properties"] = props
    wt = f"/tmp/confirm-{name}"
    sh(f"git -C /repo worktree remove --force {wt}")
    r = sh(f"git -C /repo worktree add -q --detach {wt} HEAD")
    assert r.returncode == 0, r.stderr
    conf = {"repo_head": sh("git -C /repo rev-parse --short HEAD").stdout.strip()}
    env = dict(os.environ, PYTHONPATH=f"{wt}/perception_eval", TQDM_DISABLE="1", MPLBACKEND="Agg")
    try:
        d0 = subprocess.run(["/venv/bin/python", os.path.join(dst, "demo.py")], cwd=wt, env=env, capture_output=True, text=True, timeout=1800)
        conf["demo_unchanged"] = {"rc": d0.returncode, "tail": (d0.stdout + d0.stderr)[-300:]}
        a = sh(f"git -C {wt} apply {os.path.join(dst, 'patch.diff')}")
        conf["patch_applies"] = a.returncode == 0
        if a.returncode != 0:
            conf["apply_error"] = a.stderr[-300:]
        d1 = subprocess.run(["/venv/bin/python", os.path.join(dst, "demo.py")], cwd=wt, env=env, capture_output=True, text=True, timeout=1800)
        conf["demo_changed"] = {"rc": d1.returncode, "tail": (d1.stdout + d1.stderr)[-300:]}
        if run_suite:
            t0 = time.time()
            # (the suite's visualisation tests leave ~100 MB per run in the temp directory: give it one of its own and remove it)
            suite_tmp = tempfile.mkdtemp(prefix="suite-tmp-")
            try:
                t = subprocess.run("/venv/bin/python -m pytest -q -p no:cacheprovider --timeout=900 perception_eval/test 2>&1 | tail -1", shell=True, cwd=wt, env=dict(env, TMPDIR=suite_tmp), capture_output=True, text=True, timeout=3600)
            finally:
                shutil.rmtree(suite_tmp, ignore_errors=True)
            conf["suite_with_change"] = t.stdout.strip()[-200:]
            conf["suite_wall_s"] = round(time.time() - t0)
        conf["checks"] = {}
        for p in props:
            t0 = time.time()
            c = subprocess.run([os.path.join(ROOT, "check"), p, "--tier", "quick", "--no-evidence"], cwd=ROOT, env=dict(os.environ, VERIF_REPO=wt), capture_output=True, text=True, timeout=3600)
            lines = [ln for ln in c.stdout.splitlines() if ln.startswith(("VIOLATION", "HELD", "INCONCLUSIVE", "  mechanism"))]
            conf["checks"][p] = {"rc": c.returncode, "killed": c.returncode == 1 and any(ln.startswith("VIOLATION") for ln in lines), "lines": [ln[:300] for ln in lines[:4]], "wall_s": round(time.time() - t0)}
    finally:
        sh(f"git -C /repo worktree remove --force {wt}")
        shutil.rmtree(wt, ignore_errors=True)
    ok = conf.get("demo_unchanged", {}).get("rc") == 0 and conf.get("patch_applies") and conf.get("demo_changed", {}).get("rc") == 1 and (not run_suite or "110 passed" in conf.get("suite_with_change", ""))
    conf["confirmed"] = bool(ok)
    meta["confirmed"] = conf
    json.dump(meta, open(os.path.join(dst, "meta.json"), "w"), indent=1)
    print(json.dumps({"name": name, "confirmed": ok, "suite": conf.get("suite_with_change"), "demo": (conf.get("demo_unchanged", {}).get("rc"), conf.get("demo_changed", {}).get("rc")), "checks": {p: (v["killed"], v["lines"][:2]) for p, v in conf["checks"].items()}}, indent=1)[:1500])


if __name__ == "__main__":
    main()
