#!/bin/sh
# run every thorough check once (no evidence written), print verdict lines
worst=0
for p in $(/venv/bin/python -c "import json;print(' '.join(c['property_id'] for c in json.load(open('MANIFEST.json'))['checks']))"); do
  t0=$(date +%s)
  out=$(VERIF_SEED=${VERIF_SEED:-0} ./check $p --tier thorough --no-evidence 2>&1); rc=$?
  echo "$p rc=$rc $(( $(date +%s) - t0 ))s $(echo "$out" | grep -E '^(HELD|VIOLATION|INCONCLUSIVE|KNOWN)' | head -3 | cut -c1-400)"
  if [ $rc -ne 0 ]; then worst=$rc; echo "$out" | grep -A1 -E 'VIOLATION|INCONCLUSIVE' | cut -c1-900; fi
done
exit $worst
