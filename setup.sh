#!/bin/sh
# Offline setup: icontract (runtime contracts) beside the repository's interpreter, into /verif/.deps.
cd "$(dirname "$0")" || exit 1
/venv/bin/pip install -q --no-index --find-links /opt/veriftools/wheels --target ./.deps icontract >/dev/null 2>&1 || echo "setup: icontract install failed (checks fall back to plain taps)"
/venv/bin/python -c "import sys; sys.path.insert(0,'.deps'); import icontract; print('icontract', icontract.__version__)" 2>/dev/null || true
exit 0
